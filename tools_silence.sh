#!/bin/bash
# Runs every registered quick check under several VERIF_SEED values, each from a fresh process, and reports exit codes and wall times.
cd "$(dirname "$0")"
for seed in ${SEEDS:-1 2 3}; do
  for c in C01 C02 C03 C04 C05 C06 C07 C08 C09 C10 C11 C12 C13 C14 C15 C16 C17 C18 C19 C20; do
    s=$(date +%s)
    out=$(VERIF_SEED=$seed ./check $c --tier quick 2>&1 | grep -v findfont)
    rc=$?
    e=$(( $(date +%s) - s ))
    echo "seed=$seed $c exit=$(echo "$out" | grep -c '^VIOLATION') status=$(echo "$out" | grep -oE '(HELD|VIOLATED|HARNESS-ERROR)' | head -1) wall=${e}s"
  done
done
