"""Owns every source of nondeterminism the interpreter offers (DESIGN 1.1-4).

``ensure_pinned`` re-executes the interpreter once with a fixed environment, so that hash
randomisation, BLAS/OpenMP thread counts and the matplotlib back-end are the same in every run.
"""
import os
import sys

VERIF_ROOT = os.path.dirname(os.path.dirname(os.path.abspath(__file__)))
# The checks registered in MANIFEST.json always run against /repo's working tree. MC_REPO_SRC exists only so that the seeded-change
# runner (mutants/run.py) can point a check at a scratch worktree of /repo instead of editing /repo itself.
REPO_SRC = os.environ.get('MC_REPO_SRC', '/repo/src')
GUARD = 'AMPYCLOUD_VERIF'
ORIG_PRMS = None

PIN = {
    'PYTHONHASHSEED': '0',
    'OMP_NUM_THREADS': '1',
    'OPENBLAS_NUM_THREADS': '1',
    'MKL_NUM_THREADS': '1',
    'NUMEXPR_NUM_THREADS': '1',
    'VECLIB_MAXIMUM_THREADS': '1',
    'MPLBACKEND': 'Agg',
    'PYTHONDONTWRITEBYTECODE': '1',
    'PYTHONWARNINGS': 'ignore',
    'MPLCONFIGDIR': os.path.join(VERIF_ROOT, '.mplcache'),
    'TZ': 'UTC',
    'LC_ALL': 'C.UTF-8',
}


def ensure_pinned(guard: str = '1') -> None:
    """Re-exec with the pinned environment unless already there. ``guard`` is the value of the
    AMPYCLOUD_VERIF hook guard wanted for this process ('1' on, '0' off)."""
    want = dict(PIN)
    want[GUARD] = guard
    if os.environ.get('MC_PINNED') == '1' and all(os.environ.get(k) == v for k, v in want.items()):
        return
    env = dict(os.environ)
    env.update(want)
    env['MC_PINNED'] = '1'
    os.makedirs(want['MPLCONFIGDIR'], exist_ok=True)
    os.chdir(VERIF_ROOT)
    os.execve(sys.executable, [sys.executable, '-m', 'mc'] + sys.argv[1:], env)


def import_ampycloud():
    """Import ampycloud from /repo's *current working tree* and prove it."""
    if REPO_SRC in sys.path:
        sys.path.remove(REPO_SRC)
    sys.path.insert(0, REPO_SRC)
    import warnings
    warnings.simplefilter('ignore')
    import ampycloud  # noqa
    global ORIG_PRMS
    if ORIG_PRMS is None:
        # the dictionary object that exists at import time: what a `from .dynamic import AMPYCLOUD_PRMS` alias would hold
        from ampycloud import dynamic
        ORIG_PRMS = dynamic.AMPYCLOUD_PRMS
    here = os.path.realpath(ampycloud.__file__)
    if not here.startswith(os.path.realpath(REPO_SRC) + os.sep):
        raise RuntimeError(f'HARNESS-ERROR ampycloud imported from {here}, not {REPO_SRC}')
    return ampycloud


def tree_sha256() -> str:
    """SHA-256 over all python / yaml / style sources of the package as they are on disk now."""
    import hashlib
    h = hashlib.sha256()
    root = os.path.join(REPO_SRC, 'ampycloud')
    for dirpath, dirnames, filenames in sorted(os.walk(root)):
        dirnames.sort()
        for fn in sorted(filenames):
            if fn.endswith(('.py', '.yml', '.mplstyle')):
                p = os.path.join(dirpath, fn)
                h.update(os.path.relpath(p, root).encode())
                with open(p, 'rb') as f:
                    h.update(f.read())
    return h.hexdigest()
