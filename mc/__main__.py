"""CLI:  python -m mc <Cxx> [--tier quick|thorough] [--cap SECONDS] | replay <file> | selftest"""
import os
import sys
import json


def main():
    argv = sys.argv[1:]
    if not argv:
        print(__doc__)
        return 2
    from . import env
    cmd = argv[0]
    if cmd == 'replay':
        with open(argv[1]) as f:
            pid = json.load(f)['property']
        from .runner import GUARD_OFF
        env.ensure_pinned('0' if pid in GUARD_OFF else '1')
        from . import runner
        return runner.run_replay(argv[1])
    if cmd == 'selftest':
        env.ensure_pinned('1')
        from . import selftest
        return selftest.main(argv[1:])
    pid = cmd
    tier = os.environ.get('VERIF_TIER', 'quick')
    cap = None
    i = 1
    while i < len(argv):
        if argv[i] == '--tier':
            tier = argv[i + 1]; i += 2
        elif argv[i] == '--cap':
            cap = float(argv[i + 1]); i += 2
        else:
            print('unknown argument', argv[i]); return 2
    if tier not in ('quick', 'thorough'):
        print('bad tier', tier); return 2
    from .runner import GUARD_OFF
    env.ensure_pinned('0' if pid in GUARD_OFF else '1')
    seed = int(os.environ.get('VERIF_SEED', '0') or 0)
    from . import runner
    if cap is None and tier == 'thorough':
        cap = float(os.environ.get('MC_THOROUGH_CAP', '2400'))
    return runner.run_check(pid, tier, seed, cap)


if __name__ == '__main__':
    sys.exit(main())
