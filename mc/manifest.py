"""Generates /verif/MANIFEST.json from the property modules that exist (python -m mc.manifest)."""
import json
import os
import sys

ROOT = os.path.dirname(os.path.dirname(os.path.abspath(__file__)))

# per property: (technique, level text, level note, design ref)
INFO = {
    'C01': ('bounded exhaustive enumeration of layer tables x MSA positions x levels on the real pipeline, grammar/selection invariant on every message',
            'Every layer table of <=4 decks over the okta representatives, at every MSA position (incl. exactly on a base), buffer and level, plus all micro hit tables over a boundary menu and all witness scenes, is run through the real run()/metar_msg(); the message is checked against the grammar and the ICAO selection clauses of the statement. A coverage statement inside the bound, not a sample.',
            'Trusts pandas/numpy/sklearn as installed; heights, times and counts come from boundary-centred alphabets (DESIGN 3, 8).', '5 C01'),
    'C02': ('bounded exhaustive enumeration of layer tables x MSA x okta buffers, reference decision procedure for first group / ceiling / NCD / NSC',
            'Same enumeration as C01 (family L built for under-reporting: FEW/SCT layers consuming slots below a BKN, only zero-okta layers, layers only at/above the MSA, top deck with MAX / MAX+1 hits above MSA+buffer); an independent decision procedure written from the statement gives the expected first group, ceiling membership and the NCD/NSC decision from the public table and the count of cropped hits computed from the caller frame.',
            'As C01; the cropped-hit count is recomputed by the harness from the input rows, not read from the chunk flag.', '5 C02'),
    'C03': ('exhaustive enumeration of all (count,total) pairs and micro tables, set-based reference counting and rational WMO binning',
            'All (count,total) pairs up to the bound x okta0 x okta8, and all micro tables with 2 ceilometers, coincident/distinct stamps, absent cells and multi-hit cells: n_hits/perc/okta/code of every table row are compared with a reference built from Python sets over the per-hit ids and exact rational binning; monotonicity is checked globally over the collected (total,params)->(count->okta) map.',
            'x.5-okta ties accept both neighbours (statement says nearest).', '5 C03'),
    'C04': ('bounded exhaustive enumeration of deck scenes x base-height parameters x row orders; per-row reference percentile/statistics',
            'Deck scenes (ramps, two ceilometers) x percentile x look-back x exclusion x LOWESS x row orders: every row of every table is recomputed from chunk.data by a reference (member selection by look-back/exclusion with documented accept-sets, numpy percentile, plain statistics, exact floor for the code) and compared.',
            'Look-back accept set: floor or ceil of n*p/100 latest hits, ties in time any order (statement leaves it open).', '5 C04'),
    'C05': ('bounded exhaustive enumeration of scenes incl. id-allocation family; accounting invariants on per-hit ids vs tables',
            'Deck scenes with 2-/3-way splits and merges, degenerate micro tables, witness scenes and the id-allocation family (S far singles + one splittable group, S across the 100 boundary): ids>=0 iff height valid, tables list exactly the ids present, layers nest in groups, ncomp=k gives k layers, multiset of hits conserved minus the reference MSA crop.',
            'Sizes beyond the bound (more than ~125 slices) not decided.', '5 C05'),
    'C06': ('bounded exhaustive enumeration of deck scenes straddling every separation value x row orders x base parameters; separation invariant',
            'Two-/three-deck scenes with gaps on both sides of and exactly at each MIN_SEP value and LIMS edge, chains needing repeated merges, bimodal/trimodal decks x five row orders x percentile x look-back x separation bins x exclusion: consecutive group bases and (when no re-merge happened and nothing is excluded) layer bases of one group must be >= the bin separation.',
            'Raw mixture component count observed by wrapping ampycloud.layer.best_gmm from the harness (no source hook).', '5 C06'),
    'C07': ('exhaustive enumeration of micro tables around the crop limit; partition invariant over re-valuations of above-limit hits',
            'All micro tables with heights below, exactly at, one ulp above and far above MSA+buffer, all hit types, x MSA x buffer x okta0; tables that differ only in the value (or non-detection replacement) of above-limit hits must give bit-identical tables; rows at/below the limit are compared bit-for-bit with the input; the flag is compared with the reference count.',
            'Replacement by non-detection skipped when the input checker would refuse the result (as the property prescribes).', '5 C07'),
    'C08': ('bounded exhaustive enumeration of legal inputs x deviation-bounded parameter sets (d<=1 quick, d<=2 thorough); totality oracle',
            'Micro tables incl. every warning-only anomaly, deck scenes, witness scenes and the slice-bundle family x every parameter leaf ranging over its documented-legal menu: run() must return a chunk and metar_msg() a str; refused frames must raise AmpycloudError only. Hook guard OFF.',
            'Parameter menus contain only values that keep the documented meaning; per-run horizon 300 s.', '5 C08'),
    'C09': ('exhaustive enumeration of prior-history sequences x RNG states x hash seeds x processes; digest equality and RNG-state invariant',
            'Scenes engaging the mixture model are processed after every prior history of bounded length over the operation menu, under each global RNG state, in fresh interpreters with several PYTHONHASHSEED values; digests must be bit-identical to the reference and numpy.random.get_state() unchanged across every public call. Hook guard OFF.',
            'Thread counts of numerical libraries pinned to 1 (excluded by the property).', '5 C09'),
    'C10': ('exhaustive enumeration of all n^n index label functions on small tables x column orders x extras x dtypes; differential digest oracle',
            'For tables of <=4 rows ALL label functions (every equality pattern and order), all 24 column orders, extra columns and dtype variants, with and without MSA; for larger scenes a relabelling menu incl. pd.concat-style repeated labels: tables, messages and per-hit ids (by position) must equal the plain RangeIndex run.',
            'Rows matched by position.', '5 C10'),
    'C11': ('explicit-state breadth-first search over parameter-store / construct / run / edit operation histories against a nested-dict reference model',
            'BFS over histories of G.edit, construct, run, snapshot edit, reset, set_prms on the real module state; after every transition the real global, every live snapshot and every caller frame/dict are compared with a deep-copy reference model.',
            'Depth bound stated in evidence; states de-duplicated by content digest.', '5 C11'),
    'C12': ('exhaustive enumeration of leaves x values x three routes with poisoned / trip-wire global; all subsets for reset_prms',
            'Every parameter leaf x every alternative value through per-call dict, global edit and YAML on scenes measured to be sensitive to it; stages run against a trip-wire global that raises on access; unknown keys at every depth; reset_prms over subsets of names after poisoning every leaf in place.',
            'An insensitive leaf is reported as uncovered, not passed.', '5 C12'),
    'C13': ('exhaustive stage-level interleavings of 2-3 chunks + pre-emption-bounded thread schedules (settrace baton scheduler) on the real code',
            'All 252 interleavings of two chunks stage sequences, the merged 3-chunk graph, and real threads under a controlled scheduler with every schedule of <=1 pre-emption (thorough: finer points, 2 pre-emptions coarse): each chunk must equal its isolated reference and module state must be unchanged.',
            'C-level parallelism and pre-emption inside third-party code not modelled.', '5 C13'),
    'C14': ('explicit-state search to fixpoint over the ten stage/query operations on live chunks; protocol-table + canonical-result oracle',
            'BFS over all call sequences of find_slices/find_groups/find_layers/metarize(w)/metar_msg(w) on scenes with merges and splits, states merged by full chunk digest, run to fixpoint (closed: true means every unbounded call sequence on that scene is decided).',
            'Merge soundness: equal digest implies equal futures by determinism; cross-checked by replay from scratch.', '5 C14'),
    'C15': ('exhaustive enumeration of all frames of <=3 rows over a 32-row alphabet x layout variants; independent predicate',
            'All frames with repeats over {a,b}x{-1,0}x{NaN,100}x{-1,0,1,2} up to 3 rows x {plain, column dropped, extra column, dtype variants}: raise iff the independent predicate of the five documented conditions holds, else normalised output, argument untouched, second pass silent.',
            'Frames whose columns cannot be coerced are outside the property.', '5 C15'),
    'C16': ('exhaustive enumeration of all injective renamings into a 9-name pool x exclusion lists x look-back; differential digest oracle',
            'For 2- and 3-ceilometer scenes all injective maps into a pool with order-reversing, numeric-looking, empty and long names, exclusion lists mapped accordingly: digests must be identical after mapping names back.',
            '', '5 C16'),
    'C17': ('exhaustive depth-first enumeration of all okta sequences up to the length bound against a reference fold',
            'Every sequence over 0..8 up to length 6 (quick) / 8 (thorough, 48.4 M) and the boundary alphabet one step longer is fed to the real significant_cloud(); compared with a fold written from the statement, with its parent prefix, and for length.',
            'Longer sequences are not decided (the function is a fold whose state space - (#flags, threshold) - is exhausted at length 4).', '5 C17'),
    'C18': ('exhaustive enumeration of all (n,m) pairs / integer feet / boundary neighbours against rational-arithmetic references',
            'All 0<=n<=m<=M percentages (scalar and array calls), okta2code on -2..11 and non-int types, height2code on every integer foot below 1e5 and +-2 ulp around each coding boundary.',
            'Ties at x.5 okta accept both neighbours.', '5 C18'),
    'C19': ('exhaustive enumeration of short arrays over a boundary alphabet x all scaling parameter menus / all sorted step lists',
            'Arrays of length 1-4 over a boundary alphabet (NaN, step edges, negatives, 0, 1e5) x shift-and-scale x min-max x all sorted step lists of length 0-4: order preservation, do/undo round trip, [0,1] range and min_range, continuity at each step, NaN blindness.',
            'Round trip compared with relative tolerance 1e-9.', '5 C19'),
    'C20': ('explicit-state search over plot-call sequences on a pool of processed chunks; no-exception and no-side-effect invariants',
            'Every plot call (upto x show_ceilos x reference METAR x save formats) on every chunk of the pool, and all sequences of two calls: no exception, chunk digest / rcParams / open figures unchanged, directory listing equals the requested files.',
            'latex/metsymb styles and GUI back-ends outside (no TeX on the image).', '5 C20'),
}


def main():
    props = []
    with open(os.path.join(ROOT, 'properties.jsonl')) as f:
        for line in f:
            if line.strip():
                props.append(json.loads(line)['id'])
    checks, na = [], []
    for pid in props:
        if os.path.exists(os.path.join(ROOT, 'mc', 'props', f'{pid}.py')):
            tech, text, note, ref = INFO[pid]
            checks.append({
                'property_id': pid,
                'quick_cmd': f'./check {pid} --tier quick',
                'thorough_cmd': f'./check {pid} --tier thorough',
                'evidence_file': f'/verif/evidence/{pid}.json',
                'replay_cmd_template': './check replay {path}',
                'engine': 'mc',
                'level_claimed': {'category': 'model_checking', 'text': text, 'design_ref': f'DESIGN.md section {ref}'},
                'level_note': note or 'Trusts the installed numpy/pandas/scikit-learn/statsmodels builds; values outside the alphabets and sizes beyond the bound are not decided (DESIGN 8).',
                'technique': tech,
            })
        else:
            na.append({'property_id': pid, 'reason': 'check not built yet in this tree (planned in DESIGN.md section 5); nothing is claimed for it until its module exists'})
    hooks_commits = []
    hc = os.path.join(ROOT, 'hooks_commits.txt')
    if os.path.exists(hc):
        hooks_commits = [l.split()[0] for l in open(hc) if l.strip() and not l.startswith('#')]
    man = {
        'version': 1,
        'setup_cmd': './check selftest --setup',
        'hooks': {
            'guard': 'AMPYCLOUD_VERIF',
            'enable': 'environment variable AMPYCLOUD_VERIF=1 in the process that imports ampycloud (editable install: /repo/src is imported as is, nothing to build); set by ./check for every property except C08 and C09, which run with the guard off',
            'baseline_off_cmd': 'cd /repo && env -u AMPYCLOUD_VERIF /venv/bin/python -m pytest -ra -q -p no:cacheprovider --timeout=900 --continue-on-collection-errors',
            'source_commits': hooks_commits,
            'add_only': True,
        },
        'engines': [{
            'name': 'mc', 'path': '/verif/mc',
            'serves_properties': [c['property_id'] for c in checks],
            'kind_free_text': 'hand-written bounded exhaustive explorers in Python driving the real ampycloud code: E1 product enumerator, E2 explicit-state BFS with digest de-duplication, E3 deviation-bounded configurations, E4 stage interleavings and a settrace/semaphore thread scheduler; 16-way fork pool',
        }],
        'checks': checks,
        'notes': 'All checks: /venv/bin/python -m mc <id>; exit 0 held, 1 VIOLATION (replay confirmed twice in fresh interpreters), 2 HARNESS-ERROR (never a VIOLATION line). Known findings: /verif/known_findings.json.',
        'not_applicable': na,
    }
    with open(os.path.join(ROOT, 'MANIFEST.json'), 'w') as f:
        json.dump(man, f, indent=1)
        f.write('\n')
    print(f'MANIFEST.json: {len(checks)} checks, {len(na)} not yet claimed')


if __name__ == '__main__':
    sys.exit(main())
