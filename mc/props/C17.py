"""C17 - significance flags implement the ICAO 1-3-5 rule for every okta sequence.

E1, depth-first: every sequence over 0..8 up to length L is fed to the real
``ampycloud.icao.significant_cloud``; each is compared with (a) a reference fold written from the
property statement, (b) the result for its parent prefix (prefix-closure), (c) its own length.
"""
import itertools

TITLE = 'ICAO 1-3-5 rule for every okta sequence'
EXPLORER = 'E1'
CLAUSES = ['C17.fold', 'C17.prefix', 'C17.length', 'C17.third_flag', 'C17.fourth_refused', 'C17.containers', 'C17.result_owned_by_caller']
RULE = ('every sequence over the okta alphabet up to the length bound, enumerated depth-first from '
        'each fixed prefix (one case = one prefix subtree); an execution is one call of the real '
        'significant_cloud(); distinct_nontrivial counts distinct flag patterns returned')
ASSUMPTIONS = ['oktas are python ints 0..8 in a list, as produced by DataFrame.to_list() in metarize; for sequences of length <= 4 also tuples, '
               'numpy arrays (int64, int8, uint8, uint16, float64) and pandas Series with a non-default index',
               'longer sequences than the bound are not decided']

FULL = list(range(9))
BOUNDARY = [0, 1, 2, 3, 4, 5, 8]


def bound(tier):
    if tier == 'quick':
        return 'all sequences over 0..8 of length <= 6 (597 871); boundary alphabet {0,1,2,3,4,5,8} to length 7'
    return 'all sequences over 0..8 of length <= 8 (48 427 561); boundary alphabet {0,1,2,3,4,5,8} to length 9'


def cases(tier):
    full_len, bnd_len, plen = (6, 7, 2) if tier == 'quick' else (8, 9, 3)
    out = [{'alphabet': 'full', 'prefix': [], 'upto': plen - 1}]   # the short sequences themselves
    for p in itertools.product(FULL, repeat=plen):
        out.append({'alphabet': 'full', 'prefix': list(p), 'upto': full_len})
    # other containers of the same values, and what happens after a caller edits a returned list in place
    for first in FULL:
        out.append({'alphabet': 'full', 'containers': first, 'upto': 4 if tier == 'quick' else 5})
    out.append({'alphabet': 'boundary', 'prefix': [], 'upto': plen - 1})
    for p in itertools.product(BOUNDARY, repeat=plen):
        out.append({'alphabet': 'boundary', 'prefix': list(p), 'upto': bnd_len})
    return out


def ref_flags(oktas):
    """The statement, as a fold: flagged iff fewer than three flagged below and okta >= 1/3/5."""
    flags, nflag = [], 0
    for o in oktas:
        f = nflag < 3 and o >= (1, 3, 5)[nflag]
        flags.append(bool(f))
        nflag += f
    return flags


def run_case(case):
    from ampycloud.icao import significant_cloud
    alpha = FULL if case['alphabet'] == 'full' else BOUNDARY
    upto = case['upto']
    res = {'n': 0, 'clauses': {c: 0 for c in CLAUSES}, 'digests': set(), 'violations': []}
    cl = res['clauses']

    def visit(seq, parent_flags):
        got = significant_cloud(list(seq))
        res['n'] += 1
        exp = ref_flags(seq)
        got_l = [bool(x) for x in got] if isinstance(got, list) else got
        cl['C17.length'] += 1
        if not isinstance(got, list) or len(got) != len(seq):
            viol('C17.length', seq, got, exp)
            return None
        cl['C17.fold'] += 1
        if got_l != exp:
            viol('C17.fold', seq, got, exp)
        if sum(exp) == 3:
            cl['C17.third_flag'] += 1
            if len(seq) > exp.index(True) and any(o >= 5 for o, f in zip(seq, exp) if not f):
                cl['C17.fourth_refused'] += 1
        if parent_flags is not None:
            cl['C17.prefix'] += 1
            if got_l[:-1] != parent_flags:
                viol('C17.prefix', seq, got, parent_flags)
        res['digests'].add(''.join('1' if f else '0' for f in got_l))
        return got_l

    def viol(clause, seq, got, exp):
        if len(res['violations']) < 20:
            res['violations'].append({'clause': clause, 'site': 'icao.significant_cloud',
                                      'detail': {'oktas': list(seq), 'got': repr(got), 'expected': exp},
                                      # replay = the same depth-first walk, truncated at the failing
                                      # sequence (keeps any call history a stateful defect may need)
                                      'sub': {**{k: v for k, v in case.items() if k != 'stop_at'}, 'stop_at': list(seq)}})

    if 'containers' in case:
        import numpy as np
        import pandas as pd
        seqs = [[case['containers']]]
        for n in range(2, case['upto'] + 1):
            seqs += [[case['containers']] + list(t) for t in itertools.product(FULL, repeat=n - 1)]
        if 'stop_at' in case:
            seqs = seqs[:seqs.index(case['stop_at']) + 1]
        makers = [('tuple', tuple), ('int64', lambda s: np.array(s, dtype='int64')), ('int8', lambda s: np.array(s, dtype='int8')),
                  ('uint8', lambda s: np.array(s, dtype='uint8')), ('uint16', lambda s: np.array(s, dtype='uint16')),
                  ('float64', lambda s: np.array(s, dtype='float64')),
                  ('Series', lambda s: pd.Series(s, index=[10 * (len(s) - i) for i in range(len(s))]))]
        for seq in seqs:
            exp = ref_flags(seq)
            sub = {**{k: v for k, v in case.items() if k != 'stop_at'}, 'stop_at': list(seq)}
            for name, mk in makers:
                cl['C17.containers'] += 1
                res['n'] += 1
                try:
                    got = significant_cloud(mk(seq))
                    got_l = [bool(x) for x in got]
                except Exception as e:
                    got_l = 'EXC:' + repr(e)[:80]
                if got_l != exp and len(res['violations']) < 20:
                    res['violations'].append({'clause': 'C17.containers', 'site': 'icao.significant_cloud',
                                              'detail': {'oktas': list(seq), 'container': name, 'got': repr(got_l), 'expected': exp}, 'sub': sub})
            # the caller owns the list it gets back: editing it in place must not change what a later call returns
            first = significant_cloud(list(seq))
            if isinstance(first, list):
                first.reverse(); first.append(True); first[:1] = [not first[0]]
            cl['C17.result_owned_by_caller'] += 1
            res['n'] += 2
            for name, mk in (('list', list), ('tuple', tuple)):
                again = significant_cloud(mk(seq))
                if [bool(x) for x in again] != exp and len(res['violations']) < 20:
                    res['violations'].append({'clause': 'C17.result_owned_by_caller', 'site': 'icao.significant_cloud',
                                              'detail': {'oktas': list(seq), 'second_call_as': name, 'got': repr(again), 'expected': exp,
                                                         'history': 'the list returned by an earlier call with the same values was edited in place'}, 'sub': sub})
            res['digests'].add('c' + ''.join('1' if f else '0' for f in exp))
    elif 'single' in case:                     # replay of one sequence (and its parent)
        seq = case['single']
        parent = visit(seq[:-1], None) if seq else None
        visit(seq, parent)
    else:
        pre = case['prefix']
        if not pre:                          # all sequences of length 0..upto
            stack = [([], None)]
            root = visit([], None)
            stack = [([], root)]
        else:
            parent = significant_cloud(list(pre[:-1]))
            parent = [bool(x) for x in parent]
            stack = [(pre[:-1], parent)]
            alpha_first = [pre[-1]]
        first = True
        while stack:
            seq, pf = stack.pop()
            if len(seq) >= upto:
                continue
            choices = alpha
            if pre and first:
                choices = [pre[-1]]
            first = False
            for o in choices:
                s2 = seq + [o]
                f2 = visit(s2, pf)
                if case.get('stop_at') == s2:
                    stack = []
                    break
                if f2 is not None:
                    stack.append((s2, f2))
    res['digests'] = sorted(res['digests'])
    res['sample'] = {'case': case, 'executions': res['n']}
    return res
