"""C10 - the outcome depends only on the four column values, not on index labels or layout.

E1 + differential oracle. For tables of <= 4 rows ALL n^n index label functions (every equality
pattern and every order), crossed with label types, dtype variants and MSA on/off; all 24 column
orders x extra columns; for larger scenes (B, W) a relabelling menu incl. pd.concat-style repeats.
Oracle: tables + messages + per-hit ids (rows matched by POSITION) bit-identical to the plainly
indexed frame; an exception that the plain run does not raise is a violation.
"""
import itertools

import numpy as np
import pandas as pd

from . import _deckfam
from .. import pipeline, scenes
from ..digest import frame_digest, obj_digest, chunk_tables_digest

TITLE = 'index labels, column order, extra columns, dtypes are irrelevant'
EXPLORER = 'E1'
CLAUSES = ['C10.relabel', 'C10.relabel_repeats', 'C10.columns', 'C10.extra', 'C10.dtype', 'C10.relabel_x_dtype', 'C10.with_msa',
           'C10.height_before_dt']
RULE = ('(a) 4-row tables x all 256 label functions x MSA {None,set}; (b) 3-row tables x all 27 label functions x label types '
        '{int,str,float} x 7 dtype variants x MSA {None,set}; (c) tables and deck scenes x all 24 column orders x {no extra, 2 '
        'extra columns}; (d) deck/reference scenes x relabelling menu {reversed, offset, strings, floats, all-equal, per-ceilometer '
        'restart, shuffled} x dtype variants. distinct_nontrivial = distinct (scene, transformation class) pairs whose plain run '
        'found at least one slice')
ASSUMPTIONS = ['rows are matched by position', 'dtype variants are only applied where the values convert exactly']

T4 = [
    [['a', -30., 1000., 1], ['a', -15., 1010., 1], ['b', -15., 5000., 1], ['b', 0., None, 0]],
    [['a', -15., 1000., 1], ['a', -15., 5000., 2], ['b', -15., 1020., 1], ['b', -15., 5100., 2]],
    [['a', -30., 1000., 1], ['a', -15., None, 0], ['a', 0., 5000., 1], ['b', 0., 5050., 1]],
    [['a', -30., 300., -1], ['a', -15., 310., -1], ['b', -30., 4000., 1], ['b', -30., 4500., 2]],
    [['a', -45., 1000., 1], ['a', -30., 1300., 1], ['a', -15., 1600., 1], ['a', 0., 1900., 1]],
    [['a', -15., 4000., 1], ['a', -15., 4200., 2], ['a', -15., 4400., 3], ['a', 0., 1000., 1]],
    [['a', 0., 1000., 1], ['b', 0., 1000., 1], ['c', 0., 1000., 1], ['c', -15., 4000., 1]],
    [['a', -30., None, 0], ['a', -15., None, 0], ['b', -15., 4000., 1], ['b', 0., None, 0]],
]
T3 = [
    [['a', -30., 1000., 1], ['a', -15., 5000., 1], ['b', -15., 1010., 1]],
    [['a', -15., 1000., 1], ['a', -15., 5000., 2], ['b', 0., None, 0]],
    [['a', -30., 4000., 1], ['a', -30., 4200., 2], ['a', -30., 4400., 3]],
    [['a', -30., 300., -1], ['b', -15., None, 0], ['b', 0., 1000., 1]],
    [['a', -2., 1000., 1], ['a', -1., 1500., 1], ['a', 0., 2000., 1]],
    [['a', 0., 100., 1], ['b', 0., 100., 1], ['a', -15., 3000., 1]],
]
MSA_PRM = {'MSA': 2000., 'MSA_HIT_BUFFER': 1000., 'MAX_HITS_OKTA0': 0}
DTYPE_VARIANTS = ['plain', 'ceilo_object', 'dt_int', 'height_int', 'type_float', 'type_int8', 'dt_float32x', 'all_object']


def apply_dtype(df, variant):
    """Equal values in another coercible dtype; returns None when the conversion would not be exact."""
    df = df.copy()
    if variant == 'plain':
        return df
    if variant == 'ceilo_object':
        df['ceilo'] = df['ceilo'].astype(object)
        return df
    if variant == 'dt_int':
        if not np.all(df['dt'] == np.round(df['dt'])):
            return None
        df['dt'] = df['dt'].astype('int64')
        return df
    if variant == 'height_int':
        if df['height'].isna().any() or not np.all(df['height'] == np.round(df['height'])):
            return None
        df['height'] = df['height'].astype('int64')
        return df
    if variant == 'type_float':
        df['type'] = df['type'].astype(float)
        return df
    if variant == 'type_int8':
        df['type'] = df['type'].astype('int8')
        return df
    if variant == 'dt_float32x':
        if not np.all(df['dt'].astype('float32').astype(float) == df['dt']):
            return None
        df['dt'] = df['dt'].astype('float32')
        return df
    if variant == 'all_object':
        for c in df.columns:
            df[c] = df[c].astype(object)
        return df
    raise ValueError(variant)


def label_types(labels, kind):
    if kind == 'int':
        return list(labels)
    if kind == 'str':
        return ['r%d' % k for k in labels]
    if kind == 'float':
        return [k + 0.5 for k in labels]
    if kind == 'offset':
        return [k + 1000 for k in labels]
    raise ValueError(kind)


def relabel_menu(df):
    n = len(df)
    out = {
        'reversed': list(range(n))[::-1],
        'offset': [i + 100 for i in range(n)],
        'strings': ['i%05d' % i for i in range(n)],
        'floats': [i + 0.25 for i in range(n)],
        'all_equal': [7] * n,
        'shuffled': [(i * 7919) % n if np.gcd(7919, n) == 1 else (n - 1 - i) for i in range(n)],
    }
    # per-ceilometer restart, as produced by pd.concat of per-ceilometer frames
    cnt, lab = {}, []
    for c in df['ceilo'].tolist():
        lab.append(cnt.get(c, 0)); cnt[c] = cnt.get(c, 0) + 1
    out['concat'] = lab
    return out


def bound(tier):
    return '8 four-row tables x 256 labelings; 6 three-row tables x 27 labelings x 3 label types x 8 dtype variants; 24 column orders; B/W scenes x 7 relabellings'


def cases(tier):
    out = []
    for i, rows in enumerate(T4):
        for msa in (False, True):
            out.append({'fam': 'L4', 'name': f't4-{i}', 'rows': rows, 'msa': [msa]})
    for i, rows in enumerate(T3):
        for msa in (False, True):
            for kind in ('int', 'str', 'float'):
                out.append({'fam': 'L3', 'name': f't3-{i}', 'rows': rows, 'msa': [msa], 'kinds': [kind],
                            'dtypes': DTYPE_VARIANTS if tier != 'quick' else DTYPE_VARIANTS[:5] + ['all_object']})
    col_sc = [('t4-0', {'gen': 'rows', 'rows': T4[0]}), ('t4-5', {'gen': 'rows', 'rows': T4[5]})] + \
        _deckfam.two_deck_scenes('quick', rich=False)[3:40:9] + _deckfam.split_scenes('quick')[:3] + _deckfam.two_ceilo_scenes('quick')[:2]
    for name, spec in col_sc:
        out.append({'fam': 'COL', 'name': name, 'scene': spec})
    # column orders on scenes that reach the later stages' data-dependent paths: bundles of overlapping slices (time gaps), groups re-clustered
    # in time, and base heights whose look-back cut falls among simultaneous hits of several ceilometers
    later = [(n, sp, [None, MSA_PRM]) for n, sp in _deckfam.overlap_scenes('quick')[:2]]
    later += [('regroup:%d' % a, {'gen': 'regroup', 'args': [40, 13, 11, 1270., a]}, [None]) for a in (11, 7)]
    # a thin base rising WITHOUT a height jump across a drop-out of `gap` seconds (between the height scale of the grouping stage and its
    # time scale): only the time gap can separate the two halves
    for gap in (120., 150., 170.):
        rows, k = [], 0
        for dt in [-900. + 10. * i for i in range(41)] + [-500. + gap + 10. * i for i in range(int((500. - gap) // 10) + 1)]:
            rows.append(['a', dt, 1000. + 12. * k, 1])
            k += 1
        later.append(('dropout:%g' % gap, {'gen': 'rows', 'rows': rows}, [None]))
    lb = [{'BASE_LVL_LOOKBACK_PERC': p, 'MIN_SEP_VALS': [100, 1000]} for p in (35, 45)]
    later += [(n, sp, lb) for n, sp in _deckfam.sync_tie_scenes('quick')[:3]]
    later += [(n, sp, [{'BASE_LVL_LOOKBACK_PERC': 30}, {'BASE_LVL_LOOKBACK_PERC': 50, 'BASE_LVL_HEIGHT_PERC': 50}]) for n, sp in _deckfam.two_ceilo_scenes('quick')[2:5]]
    # two synchronised ceilometers, flat, except ONE stamp j where they report 1100 / 900 ft: for look-back 25 / 35 / 45 % the cut of the
    # 'most recent hits' falls between the two simultaneous hits of stamp 7 / 6 / 5 - whatever breaks that tie must not be the column order
    for j in range(3, 9):
        rows = []
        for i in range(10):
            ha, hb = (1100., 900.) if i == j else (1000. + i, 1000. + i)
            rows += [['a', -15. * (9 - i), ha, 1], ['b', -15. * (9 - i), hb, 1]]
        later.append(('tiecut:%d' % j, {'gen': 'rows', 'rows': rows}, [{'BASE_LVL_LOOKBACK_PERC': lb} for lb in (25, 35, 45)]))
    for name, spec, pl in later:
        out.append({'fam': 'COL', 'name': name, 'scene': spec, 'prms_list': pl, 'no_extra': True})
    big = (_deckfam.two_deck_scenes('quick', rich=False)[1:40:6] + _deckfam.two_ceilo_scenes('quick')[::2] + _deckfam.split_scenes('quick')[::3]
           + _deckfam.overlap_scenes('quick')[1::2] + _deckfam.w119_scenes()[:1])
    for name, spec in big:
        for msa in (False, True):
            out.append({'fam': 'BIG', 'name': name, 'scene': spec, 'msa': [msa]})
    wn = scenes.witness_names()
    for name in (wn if tier != 'quick' else wn[::3]):
        for msa in (False, True):
            for dv in (('plain', 'dt_int', 'type_float', 'ceilo_object') if tier != 'quick' else ('plain', 'type_float')):
                out.append({'fam': 'BIG', 'name': name, 'scene': {'gen': 'witness', 'name': name}, 'msa': [msa], 'dtypes': [dv]})
    return out


def weight(case):
    return {'L4': 25, 'L3': 16, 'COL': 10, 'BIG': 12}[case['fam']] * (3 if case.get('scene', {}).get('gen') == 'witness' else 1)


def observe(fr, prms):
    r = pipeline.run(fr, prms)
    if not r.ok:
        return ('EXC', r.exc_type, r.site), r
    c = r.chunk
    ids = frame_digest(c.data, by_name=True, with_index=False)     # per-hit columns, by position
    return ('OK', obj_digest([chunk_tables_digest(c), r.msgs, ids, bool(c.clouds_above_msa_buffer)])), r


def run_case(case):
    res = {'n': 0, 'clauses': {}, 'digests': set(), 'violations': [], 'crashed': 0}
    cl = res['clauses']

    def hit(c):
        cl[c] = cl.get(c, 0) + 1

    rows = case['rows'] if 'rows' in case else scenes.build(case['scene'])
    base = scenes.frame(rows)
    only = case.get('only')

    def compare(clauses, fr, prms, ref, tag):
        if only is not None and only != tag:
            return
        got, r = observe(fr, prms)
        res['n'] += 1
        for c in clauses:
            hit(c)
        if prms:
            hit('C10.with_msa')
        if got != ref:
            detail = {'transformation': tag, 'prms': prms, 'plain': ref[:2] if ref[0] == 'EXC' else 'ok', 'transformed': got[:3] if got[0] == 'EXC' else 'different digest',
                      'index': [repr(x) for x in fr.index.tolist()][:12], 'columns': list(map(str, fr.columns)), 'dtypes': [str(t) for t in fr.dtypes.tolist()]}
            if got[0] == 'OK' and ref[0] == 'OK':
                detail['msgs'] = r.msgs
            site = f'{got[1]}@{got[2]}' if got[0] == 'EXC' else 'digest'
            res['violations'].append({'clause': clauses[0], 'site': site, 'detail': detail,
                                      'sub': {**{k: v for k, v in case.items() if k != 'only'}, 'only': tag}})

    for prms in (case['prms_list'] if 'prms_list' in case else [(MSA_PRM if m else None) for m in case.get('msa', [False, True])]):
        ref, r0 = observe(base, prms)
        res['n'] += 1
        nontrivial = ref[0] == 'OK' and r0.chunk.n_slices
        n = len(base)
        if case['fam'] in ('L4', 'L3'):
            kinds = case.get('kinds', ['int'])
            variants = case.get('dtypes', ['plain'])
            for fn in itertools.product(range(n), repeat=n):
                for kind in kinds:
                    for dv in variants:
                        fr = apply_dtype(base, dv)
                        if fr is None:
                            continue
                        fr.index = label_types(fn, kind)
                        cls = ['C10.relabel']
                        if len(set(fn)) < n:
                            cls.append('C10.relabel_repeats')
                        if dv != 'plain':
                            cls = ['C10.relabel_x_dtype'] + cls + ['C10.dtype']
                        compare(cls, fr, prms, ref, f'labels={list(fn)}/{kind}/{dv}/msa={prms is not None}')
            if nontrivial:
                res['digests'].add(f"{case['name']}|labels|{prms is not None}")
        elif case['fam'] == 'COL':
            for perm in itertools.permutations(scenes.COLS):
                for extra in ((False,) if case.get('no_extra') else (False, True)):
                    fr = base.copy()
                    if extra:
                        fr['station'] = 'GVA'
                        fr['quality'] = np.arange(len(fr)) % 3
                        cols = ['quality'] + list(perm[:2]) + ['station'] + list(perm[2:])
                    else:
                        cols = list(perm)
                    fr = fr[cols]
                    cls = ['C10.columns'] + (['C10.extra'] if extra else [])
                    if list(perm).index('height') < list(perm).index('dt'):
                        cls.append('C10.height_before_dt')
                    compare(cls, fr, prms, ref, f'columns={cols}/msa={prms is not None}')
            if nontrivial:
                res['digests'].add(f"{case['name']}|columns|{prms is not None}")
        else:
            menu = relabel_menu(base)
            for name, labels in menu.items():
                for dv in case.get('dtypes', ('plain', 'dt_int', 'type_float', 'ceilo_object')):
                    fr = apply_dtype(base, dv)
                    if fr is None:
                        continue
                    fr.index = labels
                    cls = ['C10.relabel']
                    if len(set(labels)) < len(labels):
                        cls.append('C10.relabel_repeats')
                    if dv != 'plain':
                        cls = ['C10.relabel_x_dtype'] + cls + ['C10.dtype']
                    compare(cls, fr, prms, ref, f'index={name}/{dv}/msa={prms is not None}')
            if nontrivial:
                res['digests'].add(f"{case['name']}|menu|{prms is not None}")
    res['digests'] = sorted(res['digests'])
    res['sample'] = {'fam': case['fam'], 'scene': case['name'], 'runs': res['n']}
    return res
