"""C16 - ceilometer names are labels only: renaming them changes nothing.

E1 + differential oracle: for 2- and 3-ceilometer scenes ALL injective maps into a 9-name pool
(order-reversing names, names that sort differently as strings such as '10' < '9', empty-ish names
that collide after stripping, a long name; numeric-looking names that are prefixes of each other on non-negative stamps), with the exclusion list mapped accordingly, x look-back.
Oracle: message, tables and per-hit assignments bit-identical after mapping the names back.
"""
import itertools

from . import _deckfam
from .. import pipeline, scenes
from ..digest import frame_digest, obj_digest, chunk_tables_digest

TITLE = 'ceilometer names are labels only'
EXPLORER = 'E1'
CLAUSES = ['C16.rename_equal', 'C16.order_reversing', 'C16.with_exclusion', 'C16.lookback_lt100', 'C16.simultaneous_hits',
           'C16.three_ceilos', 'C16.strip_collision', 'C16.absent_excluded']
RULE = ('2-ceilometer scenes x all 72 injective maps and 3-ceilometer scenes x all 504 injective maps into the pool '
        "{'a','B','10','9','',' ','A','AB','x'*50} x {no exclusion, each single exclusion} x look-back {100,50,30}; reference scenes "
        '(2-7 real instrument names) x 4 maps. distinct_nontrivial = distinct (scene, parameters) pairs with >= 1 slice')
ASSUMPTIONS = ['rows keep their order; only the ceilo column (and the exclusion list) is renamed']

POOL = ['a', 'B', '10', '9', '', ' ', 'A', 'AB', 'x' * 50]
# names that some helper might parse instead of comparing (regex metacharacters, list separators, missing-value look-alikes)
# numeric-looking names that are prefixes of each other: a key built by gluing name and time stamp together confuses ('1', 10.0) with ('11', 0.0)
NUM_POOL = ['1', '11', '2', '12', 'K', 'K2']
ODD_POOL = ['CL31+', 'CL31', 'a.b', 'a_b', '(x)', 'nan', 'a,b', '\\d']


def micro_scenes():
    out = []
    # simultaneous hits of two instruments at different heights, rising layer (look-back cut falls between them)
    rows = []
    for i in range(25):
        dt = 0.0 - 15.0 * (24 - i)
        rows.append(['a', dt, 1200.0 + 5 * i, 1]); rows.append(['b', dt, 1203.0 + 5 * i, 1])
    out.append(('sim-rising', {'gen': 'rows', 'rows': rows}))
    rows = []
    for i in range(12):
        dt = 0.0 - 15.0 * (11 - i)
        rows.append(['a', dt, 1000.0 + 7 * i, 1]); rows.append(['b', dt, None, 0])
    out.append(('one-sees-nothing', {'gen': 'rows', 'rows': rows}))
    rows = []
    for i in range(9):
        dt = 0.0 - 15.0 * (8 - i)
        rows.append(['a', dt, 1000.0, 1]); rows.append(['b', dt + 5.0, 1010.0 + i, 1]); rows.append(['c', dt, 3000.0 + 11 * i, 1])
    out.append(('three-offset', {'gen': 'rows', 'rows': rows}))
    rows = []
    for i in range(20):
        dt = 0.0 - 15.0 * (19 - i)
        rows.append(['a', dt, 1000.0 + 5 * i, 1]); rows.append(['b', dt, 1104.0 + 5 * i, 1]); rows.append(['c', dt, 1050.0 + 5 * i, 1])
        if i % 5 == 0:
            rows.append(['b', dt, 9000.0, 2])
    out.append(('msa-crop-sim3', {'gen': 'rows', 'rows': rows, 'prms': {'MSA': 5000, 'MSA_HIT_BUFFER': 1500}}))
    rows = []
    for i in range(30):
        dt = 10.0 * i                       # non-negative stamps on a 10 s grid (no minus sign between a name and a stamp)
        rows.append(['a', dt, 1000.0 + 5 * i, 1])
        rows.append(['b', dt, 1010.0 + 5 * i, 1] if i % 2 else ['b', dt, None, 0])
    out.append(('positive-grid', {'gen': 'rows', 'rows': rows}))
    # unequal numbers of measurements per instrument and an almost full layer (one hole: inside the default okta-8 buffer)
    rows = []
    for i in range(26):
        dt = 0.0 - 15.0 * (25 - i)
        if i >= 6:
            rows.append(['a', dt + 3.0, 2100.0 + 2 * i, 1])
        rows.append(['b', dt, 2104.0 + 2 * i, 1] if i != 13 else ['b', dt, None, 0])
    out.append(('unequal-nearly-full', {'gen': 'rows', 'rows': rows}))
    return out


def bound(tier):
    return '2-ceilometer scenes x 72 maps, 3-ceilometer scenes x 504 maps, x exclusion x look-back; 17 reference scenes x 4 maps'


def cases(tier):
    out = []
    ms = {n: sp for n, sp in micro_scenes()}
    extra = [('positive-grid', ms['positive-grid']), ('unequal-nearly-full', ms['unequal-nearly-full'])]
    two = micro_scenes()[:2] + extra + _deckfam.two_ceilo_scenes('quick')[::2]
    if tier != 'quick':
        two = micro_scenes()[:2] + extra + _deckfam.two_ceilo_scenes('quick')
    for name, spec in two:
        for lb in ((100, 30) if tier == 'quick' else (100, 50, 30)):
            out.append({'fam': 'two', 'name': name, 'scene': spec, 'lookback': lb})
    three = [('three-offset', ms['three-offset']), ('msa-crop-sim3', ms['msa-crop-sim3']), ('3c:split', _deckfam.D({'h': 1500., 'n': 30, 'pattern': 'jitter'}, {'h': 1950., 'n': 30, 'pattern': 'jitter'},
                                                         T=30, ceilos=['a', 'b', 'c'], ceilo_offsets=[0., 10., -10.]))]
    for name, spec in three:
        for lb in ((50, 15) if tier == 'quick' and name == 'msa-crop-sim3' else (50,) if tier == 'quick' else (100, 50, 30, 15)):
            for part in range(4):
                out.append({'fam': 'three', 'name': name, 'scene': spec, 'lookback': lb, 'part': part, 'tier': tier})
    wn = scenes.witness_names()
    for name in (wn if tier != 'quick' else wn[::2]):
        out.append({'fam': 'W', 'name': name, 'scene': {'gen': 'witness', 'name': name}, 'lookback': 50})
    return out


def weight(case):
    return {'two': 10, 'three': 12, 'W': 8}[case['fam']]


def observe(rows, prms, inverse=None):
    r = pipeline.run(rows, prms)
    if not r.ok:
        return ('EXC', r.exc_type, r.site), r
    c = r.chunk
    data = c.data.copy()
    if inverse is not None:
        data['ceilo'] = [inverse[str(x)] for x in data['ceilo'].tolist()]
    return ('OK', obj_digest([chunk_tables_digest(c), r.msgs, frame_digest(data.astype({'ceilo': object}), by_name=True, with_index=False)])), r


def run_case(case):
    res = {'n': 0, 'clauses': {}, 'digests': set(), 'violations': [], 'crashed': 0}
    cl = res['clauses']

    def hit(c):
        cl[c] = cl.get(c, 0) + 1

    rows = scenes.build(case['scene'])
    names = sorted({r[0] for r in rows})
    lb = case['lookback']
    if case['fam'] == 'W':
        maps = []
        k = len(names)
        pool2 = POOL + ['c%d' % i for i in range(10)]
        maps.append(dict(zip(names, pool2[:k])))
        maps.append(dict(zip(names, pool2[:k][::-1])))
        maps.append(dict(zip(names, [str(100 - i) for i in range(k)])))
        maps.append(dict(zip(names, [' ' * i for i in range(k)])))
        excls = [[], [names[0]]]
    else:
        maps = [dict(zip(names, img)) for img in itertools.permutations(POOL, len(names))]
        if len(names) == 2 and case['lookback'] == 100:
            maps += [dict(zip(names, img)) for img in itertools.permutations(ODD_POOL, 2)]
            maps += [dict(zip(names, img)) for img in itertools.permutations(NUM_POOL, 2)]
        if case['fam'] == 'three':
            maps = maps[case['part']::4]
        excls = [[]] + [[n] for n in names]
        if case.get('tier') == 'quick':
            excls = excls[:2]
    absent_maps = None
    if case['fam'] == 'two' and lb == 100:
        # an excluded instrument that is out of service (no hit in the chunk): its name is renamed as well
        absent_maps = [dict(zip(names + ['zz-absent'], img)) for img in itertools.permutations(POOL, 3)][::7]
    sim = len({(r[1]) for r in rows}) < len(rows)
    for excl in excls:
        prms = {'BASE_LVL_LOOKBACK_PERC': lb}
        prms.update(case['scene'].get('prms', {}))
        if excl:
            prms['EXCLUDE_FOR_BASE_HEIGHT_CALC'] = excl
        ref, r0 = observe(rows, prms)
        res['n'] += 1
        if ref[0] == 'OK' and r0.chunk.n_slices:
            res['digests'].add(f"{case['name']}|{lb}|{excl}")
        for mi, m in enumerate(maps):
            if 'only' in case and case['only'] != [mi, excl]:
                continue
            inv = {v: k for k, v in m.items()}
            rows2 = [[m[r[0]]] + r[1:] for r in rows]
            prms2 = dict(prms)
            if excl:
                prms2['EXCLUDE_FOR_BASE_HEIGHT_CALC'] = [m[e] for e in excl]
            got, r = observe(rows2, prms2, inv)
            res['n'] += 1
            hit('C16.rename_equal')
            img = [m[n] for n in names]
            if sorted(img) != img:
                hit('C16.order_reversing')
            if excl:
                hit('C16.with_exclusion')
            if lb < 100:
                hit('C16.lookback_lt100')
            if sim:
                hit('C16.simultaneous_hits')
            if len(names) >= 3:
                hit('C16.three_ceilos')
            if len({x.strip() for x in img}) < len(img):
                hit('C16.strip_collision')
            if got != ref:
                detail = {'mapping': m, 'prms': prms2, 'plain': 'ok' if ref[0] == 'OK' else ref, 'renamed': 'different digest' if got[0] == 'OK' else got}
                if got[0] == 'OK' and ref[0] == 'OK':
                    detail['msgs_plain'] = r0.msgs; detail['msgs_renamed'] = r.msgs
                res['violations'].append({'clause': 'C16.rename_equal', 'site': 'digest' if got[0] == 'OK' else f'{got[1]}@{got[2]}',
                                          'detail': detail, 'sub': {**{k: v for k, v in case.items() if k != 'only'}, 'only': [mi, excl]}})
    if absent_maps and 'only' not in case or ('only' in case and case['only'][0] == 'absent'):
        for excl in ([names[1], 'zz-absent'], ['zz-absent']):
            prms = {'BASE_LVL_LOOKBACK_PERC': lb, 'EXCLUDE_FOR_BASE_HEIGHT_CALC': excl}
            ref, r0 = observe(rows, prms)
            res['n'] += 1
            for mi, m in enumerate(absent_maps or []):
                if 'only' in case and case['only'] != ['absent', mi, excl]:
                    continue
                inv = {v: k for k, v in m.items()}
                rows2 = [[m[r[0]]] + r[1:] for r in rows]
                prms2 = dict(prms); prms2['EXCLUDE_FOR_BASE_HEIGHT_CALC'] = [m[e] for e in excl]
                got, r = observe(rows2, prms2, inv)
                res['n'] += 1
                hit('C16.rename_equal'); hit('C16.absent_excluded')
                if got != ref:
                    res['violations'].append({'clause': 'C16.rename_equal', 'site': 'digest' if got[0] == 'OK' else f'{got[1]}@{got[2]}',
                                              'detail': {'mapping': m, 'prms': prms2, 'what': 'exclusion list names an instrument without hits'},
                                              'sub': {**{k: v for k, v in case.items() if k != 'only'}, 'only': ['absent', mi, excl]}})
    res['digests'] = sorted(res['digests'])
    res['sample'] = {'fam': case['fam'], 'scene': case['name'], 'maps': len(maps), 'lookback': lb}
    return res
