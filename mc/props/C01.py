"""C01 - the METAR-like message is always well-formed and obeys the ICAO layer selection.

E1 over family L (all layer tables of <=4 decks x MSA positions x buffer), family M (all micro
tables around the MSA x okta buffers) and W (witness scenes) x which in {slices, groups, layers}.
Oracle: grammar + selection clauses of the statement, from the message string and the public table.
"""
from . import _msgfam
from .. import pipeline, scenes
from ..digest import obj_digest

TITLE = 'message grammar and ICAO selection'
EXPLORER = 'E1'
CLAUSES = ['C01.grammar', 'C01.order', 'C01.second_sct', 'C01.third_bkn', 'C01.no_zero_okta', 'C01.below_msa',
           'C01.code_listed', 'C01.table_sorted', 'C01.regrouped']
RULE = ('family L: every okta tuple of length 1..4 over the representatives {0,2,3,5,8} (thorough: all '
        'oktas 0..8 to length 3) realised as flat decks 2000 ft apart, x MSA in {None, below all, exactly '
        'at each base, between each pair, above all} x buffer {0,1500}; family M: every 2x2 (thorough 2x3) '
        'micro table over a 9-entry cell menu around the MSA x MSA/buffer/okta0/okta8 variants; W: 17 '
        'reference scenes + demo + hand-made + regroup scenes (thick deck / pause / thin deck: groups keep the slice ids with other hits). Each run is judged at the three levels. distinct_nontrivial '
        '= distinct (messages, tables) digests of runs that returned at least one cloud group')
ASSUMPTIONS = ['heights below 100000 ft (three-digit codes), as the property states',
               'a group is matched to ANY listed row with the same code (okta>=1, base<MSA): accept-set oracle']


def bound(tier):
    return ('L: <=4 layers over 5 okta representatives; M: 2 ceilometers x 2 stamps' if tier == 'quick'
            else 'L: <=3 layers over all 9 oktas + 4 layers over two 5-okta alphabets; M: 2 ceilometers x 3 stamps')


def cases(tier):
    return _msgfam.all_cases(tier)


def run_case(case):
    rows = scenes.build(case['scene'])
    res = {'n': 0, 'clauses': {}, 'digests': [], 'violations': [], 'crashed': 0}
    variants = case['variants'] if 'only_variant' not in case else case['variants'][:case['only_variant'] + 1]
    for vi, prms in enumerate(variants):
        r = pipeline.run(rows, prms)
        res['n'] += 1
        sub = dict(case); sub['only_variant'] = vi
        if not r.ok:
            res['crashed'] += 1
            res['violations'].append({**pipeline.crash_violation(r, 'C01.grammar'), 'sub': sub})
            continue
        msa = r.chunk.msa
        nontrivial = False
        st, gt = pipeline.table_rows(r.chunk.slices), pipeline.table_rows(r.chunk.groups)
        if [x['cluster_id'] for x in st] == [x['cluster_id'] for x in gt] and [x['okta'] for x in st] != [x['okta'] for x in gt]:
            res['clauses']['C01.regrouped'] = res['clauses'].get('C01.regrouped', 0) + 1
        for w in pipeline.LEVELS:
            bad, ex = pipeline.check_message_grammar(r.msgs[w], getattr(r.chunk, w), msa)
            for c in ex:
                res['clauses'][c] = res['clauses'].get(c, 0) + 1
            for clause, detail in bad:
                detail = dict(detail); detail.update({'which': w, 'prms': prms})
                res['violations'].append({'clause': clause, 'site': f'metar_msg({w})', 'detail': detail, 'sub': sub})
            if r.msgs[w] not in ('NCD', 'NSC'):
                nontrivial = True
        if nontrivial:
            res['digests'].append(obj_digest([r.msgs, [pipeline.table_rows(getattr(r.chunk, w))[:4] for w in pipeline.LEVELS]]))
    res['sample'] = {'fam': case['fam'], 'scene': case.get('oktas', case.get('cells', case.get('name'))),
                     'variants': len(case['variants'])}
    return res
