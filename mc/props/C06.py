"""C06 - groups, and layers split from one group, respect the minimum separation.

E1 over family B x E3 (percentile x look-back x row order fully crossed; separation bins and
exclusion lists one deviation at a time). Oracle = invariant on the bases finally REPORTED:
 group clause: consecutive group bases are >= MIN_SEP(bin of the upper; either bin on an edge);
 layer clause: applied only when nothing is excluded and no sub-layer was re-merged (raw mixture
 component count == final ncomp, observed by wrapping ampycloud.layer.best_gmm from the harness):
 the layers of that group are pairwise >= that group's minimum separation apart.
"""
import itertools

import numpy as np

from . import _deckfam
from .. import pipeline, scenes
from ..digest import obj_digest

TITLE = 'minimum separation of groups and of split layers'
EXPLORER = 'E1'
CLAUSES = ['C06.group_sep', 'C06.layer_sep', 'C06.merged', 'C06.split2', 'C06.split3', 'C06.remerged_skipped', 'C06.tied_stamps_split',
           'C06.excluded_run', 'C06.multi_bin', 'C06.on_exact_sep', 'C06.lookback_lt100_nonasc']
RULE = ('family B: two-deck scenes with gaps {240,250,260,340,440,450,460,...} x lower/upper patterns x counts, two-ceilometer '
        'scenes with offsets, 3-/4-deck chains, decks around a MIN_SEP_LIMS edge, bi-/tri-modal decks; per scene: '
        '(percentile {0,5,50,100} x look-back {100,50,30} x row order {asc,desc,evenodd}) + separation-bin alternatives '
        '+ exclusion lists. distinct_nontrivial = distinct (group bases, layer bases, parameters) digests of runs with '
        '>= 2 groups or a split group')
ASSUMPTIONS = ['raw mixture component count observed through a harness wrapper around ampycloud.layer.best_gmm; if that seam '
               'disappears the layer clause falls back to ncomp == min(3, #distinct heights)',
               'a base exactly on a MIN_SEP_LIMS edge may use either adjacent separation']

_RAW = []
_PATCHED = False


def _patch():
    global _PATCHED
    if _PATCHED:
        return
    from ampycloud import layer
    orig = layer.best_gmm

    def spy(abics, **kw):
        idx = orig(abics, **kw)
        _RAW.append(int(idx) + 1)
        return idx
    layer.best_gmm = spy
    _PATCHED = True


SEP_ALTS = [
    {'MIN_SEP_VALS': [100], 'MIN_SEP_LIMS': []},
    {'MIN_SEP_VALS': [100, 250, 1000], 'MIN_SEP_LIMS': [3000, 10000]},
    {'MIN_SEP_VALS': [200, 800], 'MIN_SEP_LIMS': [3000]},
    {'MIN_SEP_VALS': [100, 1000], 'MIN_SEP_LIMS': [10000]},
]


def variants_for(name, tier):
    out = []
    orders = ('asc', 'desc', 'evenodd') if tier == 'quick' else scenes.ROW_ORDERS
    for order, perc, lb in itertools.product(orders, (0, 5, 50, 100), (100, 50, 30)):
        out.append((order, {'BASE_LVL_HEIGHT_PERC': perc, 'BASE_LVL_LOOKBACK_PERC': lb}))
    for alt in SEP_ALTS:
        for perc in (5, 60, 100):
            out.append(('asc', {**alt, 'BASE_LVL_HEIGHT_PERC': perc}))
    if name.startswith('sync:'):
        # tie-break sensitivity: every time stamp is a 4-way tie; many row orders, look-back cuts that fall inside a tie
        out = []
        orders = list(scenes.ROW_ORDERS) + ['shuffle%d' % k for k in range(8 if tier == 'quick' else 40)]
        for order, lb in itertools.product(orders, (35, 45)):
            out.append((order, {'MIN_SEP_VALS': [100, 1000], 'BASE_LVL_LOOKBACK_PERC': lb}))
        return out
    if name.startswith('2c:'):
        for excl in (['b'], ['a'], ['b', 'zz']):
            for perc, lb in itertools.product((5, 100), (100, 50)):
                out.append(('asc', {'EXCLUDE_FOR_BASE_HEIGHT_CALC': excl, 'BASE_LVL_HEIGHT_PERC': perc, 'BASE_LVL_LOOKBACK_PERC': lb}))
            out.append(('desc', {'EXCLUDE_FOR_BASE_HEIGHT_CALC': excl, 'MAX_HITS_OKTA0': 0}))
    return out


def bound(tier):
    return ('B quick: %d scenes x ~50 parameter/order variants' % len(_scene_list('quick')) if tier == 'quick'
            else 'B thorough: %d scenes x ~80 parameter/order variants (all five row orders)' % len(_scene_list('thorough')))


def _scene_list(tier):
    return (_deckfam.two_deck_scenes(tier) + _deckfam.two_ceilo_scenes(tier) + _deckfam.chain_scenes(tier)
            + _deckfam.edge_scenes(tier) + _deckfam.split_scenes(tier) + _deckfam.sync_tie_scenes(tier))


def cases(tier):
    return [{'name': name, 'scene': spec, 'tier': tier} for name, spec in _scene_list(tier)]


def min_seps_for(height, prms):
    vals = pipeline.effective(prms, 'MIN_SEP_VALS')
    lims = pipeline.effective(prms, 'MIN_SEP_LIMS')
    out = set()
    out.add(vals[int(np.searchsorted(lims, height, side='left'))])
    out.add(vals[int(np.searchsorted(lims, height, side='right'))])
    return out


def run_case(case):
    _patch()
    res = {'n': 0, 'clauses': {}, 'digests': set(), 'violations': [], 'crashed': 0}
    cl = res['clauses']

    def hit(c, k=1):
        cl[c] = cl.get(c, 0) + k

    variants = variants_for(case['name'], case['tier'])
    if 'only_variant' in case:
        variants = variants[:case['only_variant'] + 1]
    for vi, (order, prms) in enumerate(variants):
        spec = dict(case['scene'])
        if spec.get('gen') == 'rows':
            rows = scenes.reorder(scenes.build(spec), order)
        else:
            spec['order'] = order
            rows = scenes.build(spec)
        del _RAW[:]
        r = pipeline.run(rows, prms, msgs=False)
        res['n'] += 1
        sub = {**{k: v for k, v in case.items() if k != 'only_variant'}, 'only_variant': vi}
        if not r.ok:
            res['crashed'] += 1
            continue
        raw = list(_RAW)
        c = r.chunk
        groups = pipeline.table_rows(c.groups)
        layers = pipeline.table_rows(c.layers)
        excl = pipeline.effective(prms, 'EXCLUDE_FOR_BASE_HEIGHT_CALC')
        multi = len(pipeline.effective(prms, 'MIN_SEP_VALS')) > 1
        nontrivial = False
        if excl:
            hit('C06.excluded_run')
        if c.n_slices > c.n_groups:
            hit('C06.merged')
        # ---- group clause
        gb = [g['height_base'] for g in groups]
        for lo, up in zip(gb, gb[1:]):
            hit('C06.group_sep')
            if multi:
                hit('C06.multi_bin')
            nontrivial = True
            seps = min_seps_for(up, prms)
            if up - lo in seps:
                hit('C06.on_exact_sep')
            if up - lo < min(seps):
                res['violations'].append({'clause': 'C06.group_sep', 'site': '_merge_close_groups',
                                          'detail': {'group_bases': gb, 'pair': [lo, up], 'required': sorted(seps), 'prms': prms,
                                                     'order': order, 'scene': case['name']}, 'sub': sub})
        # ---- layer clause
        judged = [g for g in groups if g['ncomp'] != -1]
        if len(judged) == len(raw):
            data = c.data
            lid2gid = {}
            for lid, gid in zip(data['layer_id'].tolist(), data['group_id'].tolist()):
                if lid >= 0:
                    lid2gid.setdefault(lid, set()).add(gid)
            for g, raw_n in zip(judged, raw):
                if g['ncomp'] < 2:
                    continue
                nontrivial = True
                hit('C06.split2' if g['ncomp'] == 2 else 'C06.split3')
                if g['ncomp'] != raw_n:
                    hit('C06.remerged_skipped')
                    continue
                if excl:
                    continue
                lb_ = sorted(l['height_base'] for l in layers if lid2gid.get(l['cluster_id']) == {g['cluster_id']})
                seps = min_seps_for(g['height_base'], prms)
                if pipeline.effective(prms, 'BASE_LVL_LOOKBACK_PERC') < 100 and order != 'asc':
                    hit('C06.lookback_lt100_nonasc')
                if case['name'].startswith('sync:'):
                    hit('C06.tied_stamps_split')
                for lo, up in zip(lb_, lb_[1:]):
                    hit('C06.layer_sep')
                    if up - lo in seps:
                        hit('C06.on_exact_sep')
                    if up - lo < min(seps):
                        res['violations'].append({'clause': 'C06.layer_sep', 'site': 'ncomp_from_gmm',
                                                  'detail': {'layer_bases': lb_, 'pair': [lo, up], 'required': sorted(seps),
                                                             'group_base': g['height_base'], 'ncomp': g['ncomp'], 'prms': prms,
                                                             'order': order, 'scene': case['name']}, 'sub': sub})
        else:
            res['premise_not_met'] = res.get('premise_not_met', 0) + 1
        if nontrivial:
            res['digests'].add(obj_digest([gb, [l['height_base'] for l in layers], prms]))
    res['digests'] = sorted(res['digests'])
    res['sample'] = {'scene': case['name'], 'variants': len(variants)}
    return res
