"""C07 - hits above MSA+buffer never influence the result; those at or below are kept intact.

E1 + partition invariant: one case = one micro table in which every hit above the crop limit L is a
placeholder; the case executes EVERY re-valuation in its bound (all placeholders at L+ulp, at L+500,
at L+9000; each placeholder deviating alone; replacement by non-detections with higher hits removed)
under three parameter sets that all put the limit at L = 2000 ft (MSA 1500 + buffer 500; MSA 2000 +
buffer 0; MSA 0 + buffer 2000) and once with no MSA. All members of the class must give bit-identical
tables; chunk.data must equal the reference crop of the caller's rows; the flag must equal
(count above L > MAX_HITS_OKTA0).
"""
import itertools
import math

import numpy as np

from .. import pipeline, scenes
from ..digest import chunk_tables_digest, obj_digest

TITLE = 'hits above MSA+buffer are inert, those below intact'
EXPLORER = 'E1'
CLAUSES = ['C07.class_equal', 'C07.below_intact', 'C07.flag_iff', 'C07.no_msa_no_crop', 'C07.nd_replacement',
           'C07.exactly_at_limit', 'C07.flag_true', 'C07.flag_false', 'C07.big_scene', 'C07.big_scene_split']
RULE = ('one case per micro table over a cell menu with hits below (L-500), exactly at L, and placeholders above '
        'L = 2000 ft (types 1, 2, 3 and VV); inside the case all re-valuations of the placeholders within '
        '{nextafter(L), L+500, L+9000} with <=1 deviation from a uniform choice, + the non-detection replacement, x '
        '3 parameter sets realising the same limit + MSA None. distinct_nontrivial = distinct table digests of '
        'classes that contain at least one hit above the limit')
ASSUMPTIONS = ['replacement by non-detection removes second and higher hits of that measurement (as the property prescribes)',
               'frames the input checker refuses are skipped (never arise in this alphabet)']

L = 2000.0
LO = 1500.0
A_VALUES = [float(np.nextafter(L, math.inf)), L + 500.0, L + 9000.0]
PRM_SETS = [
    {'MSA': 1500.0, 'MSA_HIT_BUFFER': 500.0, 'MAX_HITS_OKTA0': 1},
    {'MSA': 2000.0, 'MSA_HIT_BUFFER': 0.0, 'MAX_HITS_OKTA0': 0},
    {'MSA': 0.0, 'MSA_HIT_BUFFER': 2000.0, 'MAX_HITS_OKTA0': 3},
]
# cell menu: list of (height symbol, type); 'A' = placeholder above the limit
MENU = [
    None,
    [(None, 0)],
    [('lo', 1)],
    [('L', 1)],
    [('A', 1)],
    [('lo', 1), ('A', 2)],
    [('L', 1), ('A', 2)],
    [('lo', 1), ('L', 2), ('A', 3)],
    [('A', 1), ('A', 2)],
    [('lo', -1)],
    [('A', -1)],
    [('lo', 1), ('A', 2), ('A', 3)],
    [('A', 1), ('lo', 2)],               # hit types NOT ordered in height (accepted input): first hit above, second below
    [('A', 1), ('L', 2), ('lo', 3)],
    [('A', 2)],                          # a measurement holding ONLY higher hits, all above the limit (removed as a whole)
    [('A', 2), ('A', 3)],
]
QUICK_MENU = [0, 1, 2, 3, 4, 7, 8, 12, 14]


def bound(tier):
    return ('1 ceilometer x 3 stamps over a 9-entry menu + 2 ceilometers x 1 stamp over the full 16-entry menu' if tier == 'quick'
            else '1 ceilometer x 3 stamps over the full 16-entry menu + 2 ceilometers x 2 stamps over the 9-entry menu')


def cases(tier):
    out = []
    shapes = [(1, 3, QUICK_MENU), (2, 1, list(range(len(MENU))))] if tier == 'quick' else \
        [(1, 3, list(range(len(MENU)))), (2, 2, QUICK_MENU)]
    for (C, T, menu) in shapes:
        for cells in itertools.product(menu, repeat=C * T):
            if all(MENU[c] is None for c in cells):
                continue
            if C == 2 and cells[T:] < cells[:T]:
                continue
            out.append({'shape': [C, T], 'cells': list(cells)})
    for name in big_scenes():
        out.append({'big': name})
    return out


def weight(case):
    if 'big' in case:
        return 30
    return sum(1 for c in case['cells'] for e in (MENU[c] or []) if e[0] == 'A')


def big_scenes():
    """Scenes that reach merging, bundles and the mixture step (>= 30 hits per group) BELOW the limit, with higher-type hits above the limit
    interleaved in the table: the later stages must not see whether those hits were ever there."""
    from . import _deckfam
    D = _deckfam.D
    return {
        'split': (D({'h': 1000., 'n': 60, 'pattern': 'bimodal400'}, T=60), {}),
        'modes': (D({'h': 1000., 'n': 60, 'pattern': 'modes:125:125'}, T=60), {'MIN_SEP_VALS': [100, 1000]}),
        'overlap': (D({'h': 1000., 'n': 40, 'pattern': 'rampup'}, {'h': 1210., 'n': 40, 'pattern': 'rampup'}), {}),
        'two-ceilos-merge': (D({'h': 1000., 'n': 40}, {'h': 1240., 'n': 40}, ceilos=['a', 'b'], ceilo_offsets=[0., 20.]), {}),
        'split-2c': (D({'h': 1000., 'n': 40, 'pattern': 'bimodal400'}, T=40, ceilos=['a', 'b'], ceilo_offsets=[0., 20.]), {}),
    }


def big_rows(name, value, every=4):
    """Rows of a big scene (time-ordered, as a ceilometer network delivers them) with one extra hit of the next type at `value` ft for every
    `every`-th measurement; value None -> those hits are absent."""
    spec, _ = big_scenes()[name]
    rows = scenes.reorder(scenes.build(spec), 'asc')
    out, k = [], 0
    by = {}
    for r in rows:
        by.setdefault((r[0], r[1]), []).append(r)
    for key in sorted(by, key=lambda x: (x[1], x[0])):
        meas = by[key]
        out += meas
        if k % every == 0 and value is not None and all(m[2] is not None for m in meas):
            out.append([key[0], key[1], value, max(m[3] for m in meas) + 1])
        k += 1
    return out


def realise(case, valuation, nd=False):
    """Rows for one valuation: list of A-values in placeholder order; nd=True -> replace by ND."""
    C, T = case['shape']
    dts = scenes.stamps(T)
    rows, k, ai = [], 0, 0
    for c in range(C):
        for t in range(T):
            e = MENU[case['cells'][k]]; k += 1
            if e is None:
                continue
            meas = []
            for (sym, typ) in e:
                if sym == 'A':
                    meas.append((valuation[ai], typ, True)); ai += 1
                else:
                    meas.append(({'lo': LO, 'L': L, None: None}[sym], typ, False))
            if nd:
                # first / VV hits above the limit become a non-detection; second and higher hits above it are REMOVED
                kept = [(h, ty) for (h, ty, ab) in meas if not ab]
                if not kept and any(ab and ty <= 1 for (_, ty, ab) in meas):
                    kept = [(None, 0)]
                meas2 = kept
            else:
                meas2 = [(h, ty) for (h, ty, _) in meas]
            for (h, ty) in meas2:
                rows.append([('a', 'b')[c], dts[t], h, ty])
    return rows


def n_placeholders(case):
    return weight(case)


def valuations(nA):
    if nA == 0:
        return [[]]
    out = []
    for v in A_VALUES:
        out.append([v] * nA)
    base = A_VALUES[1]
    for i in range(nA):
        for v in (A_VALUES[0], A_VALUES[2]):
            val = [base] * nA
            val[i] = v
            if val not in out:
                out.append(val)
    return out


def ref_crop(rows, lim):
    out = []
    for (c, dt, h, ty) in rows:
        if lim is not None and h is not None and h > lim:
            if ty <= 1:
                out.append((c, dt, None, 0))
        else:
            out.append((c, dt, h, ty))
    return sorted(out, key=lambda r: (r[0], r[1], r[3], -1.0 if r[2] is None else r[2]))


def data_rows(chunk):
    rows = scenes.rows_of(chunk.data[scenes.COLS])
    return sorted([tuple(r) for r in rows], key=lambda r: (r[0], r[1], r[3], -1.0 if r[2] is None else r[2]))


def run_big(case):
    res = {'n': 0, 'clauses': {}, 'digests': set(), 'violations': [], 'crashed': 0}

    def hit(c):
        res['clauses'][c] = res['clauses'].get(c, 0) + 1
    name = case['big']
    _, extra = big_scenes()[name]
    for base in ({'MSA': 1800.0, 'MSA_HIT_BUFFER': 200.0, 'MAX_HITS_OKTA0': 3}, {'MSA': 2000.0, 'MSA_HIT_BUFFER': 0.0, 'MAX_HITS_OKTA0': 0}):
        prms = {**base, **extra}
        ref = None
        for every in (4, 7):
            for value in (A_VALUES[0], A_VALUES[1], A_VALUES[2], None):
                rows = big_rows(name, value, every)
                r = pipeline.run(rows, prms)
                res['n'] += 1
                if not r.ok:
                    res['crashed'] += 1
                    res['violations'].append({'clause': 'C07.class_equal', 'site': f'{r.exc_type}@{r.site}',
                                              'detail': {'scene': name, 'above_limit_hits_at': value, 'every': every, 'prms': prms, 'raised': str(r.exc)[:200]}})
                    continue
                dig = obj_digest(chunk_tables_digest(r.chunk))
                hit('C07.nd_replacement' if value is None else 'C07.class_equal')
                hit('C07.big_scene')
                if any(n > 1 for n in r.chunk.groups['ncomp'].tolist()):
                    hit('C07.big_scene_split')
                if ref is None:
                    ref = (dig, value, every)
                elif dig != ref[0]:
                    res['violations'].append({'clause': 'C07.nd_replacement' if value is None else 'C07.class_equal', 'site': 'tables',
                                              'detail': {'scene': name, 'prms': prms, 'run_a': {'above_limit_hits_at': ref[1], 'every': ref[2]},
                                                         'run_b': {'above_limit_hits_at': value, 'every': every}, 'msgs_b': r.msgs,
                                                         'what': 'tables differ although the two inputs differ only in higher-type hits above MSA+buffer'}})
                hit('C07.below_intact')
                if ref_crop([tuple(x) for x in rows], L) != data_rows(r.chunk):
                    res['violations'].append({'clause': 'C07.below_intact', 'site': '_cleanup_pdf', 'detail': {'scene': name, 'above_limit_hits_at': value, 'prms': prms}})
        res['digests'].add(ref[0] if ref else 'none')
    res['digests'] = sorted(res['digests'])
    res['sample'] = {'big_scene': name, 'runs': res['n']}
    return res


def run_case(case):
    if 'big' in case:
        return run_big(case)
    res = {'n': 0, 'clauses': {}, 'digests': set(), 'violations': [], 'crashed': 0}
    cl = res['clauses']

    def hit(c):
        cl[c] = cl.get(c, 0) + 1

    def viol(clause, detail):
        res['violations'].append({'clause': clause, 'site': '_cleanup_pdf', 'detail': detail})

    nA = n_placeholders(case)
    vals = valuations(nA)
    has_L = any(e[0] == 'L' for c in case['cells'] for e in (MENU[c] or []))
    for prms in PRM_SETS:
        ref_dig = None
        members = [(v, False) for v in vals] + ([(vals[0], True)] if nA else [])
        for (v, nd) in members:
            rows = realise(case, v, nd)
            if nd and not rows:
                continue        # every row removed: the checker refuses an empty frame, the property prescribes to skip such variants
            r = pipeline.run(rows, prms)
            res['n'] += 1
            if not r.ok:
                res['crashed'] += 1
                viol('C07.class_equal', {'raised': f'{r.exc_type}@{r.site}: {str(r.exc)[:200]}', 'rows': rows, 'prms': prms})
                continue
            # tables only: the message may legitimately differ through the high-cloud flag when hits are
            # replaced by non-detections (the statement claims identical TABLES)
            dig = obj_digest(chunk_tables_digest(r.chunk))
            if nA:
                hit('C07.nd_replacement' if nd else 'C07.class_equal')
                if ref_dig is None:
                    ref_dig = (dig, rows)
                elif dig != ref_dig[0]:
                    viol('C07.nd_replacement' if nd else 'C07.class_equal',
                         {'prms': prms, 'rows_a': ref_dig[1], 'rows_b': rows, 'msgs_b': r.msgs,
                          'what': 'slice/group/layer tables differ although only hits above MSA+buffer differ'})
            # rows at or below the limit intact, above cropped as documented
            hit('C07.below_intact')
            if has_L:
                hit('C07.exactly_at_limit')
            exp = ref_crop(rows, L)
            got = data_rows(r.chunk)
            if exp != got:
                viol('C07.below_intact', {'prms': prms, 'input_rows': rows, 'expected_chunk_rows': exp, 'chunk_rows': got})
            n_above = sum(1 for x in rows if x[2] is not None and x[2] > L)
            hit('C07.flag_iff')
            hit('C07.flag_true' if n_above > prms['MAX_HITS_OKTA0'] else 'C07.flag_false')
            if bool(r.chunk.clouds_above_msa_buffer) != (n_above > prms['MAX_HITS_OKTA0']):
                viol('C07.flag_iff', {'prms': prms, 'rows': rows, 'flag': bool(r.chunk.clouds_above_msa_buffer),
                                      'hits_above_limit': n_above})
        if nA and ref_dig is not None:
            res['digests'].add(ref_dig[0])
    # no MSA: nothing cropped, flag false
    rows = realise(case, vals[0])
    r = pipeline.run(rows, {'MSA': None, 'MAX_HITS_OKTA0': 0})
    res['n'] += 1
    hit('C07.no_msa_no_crop')
    if not r.ok:
        res['crashed'] += 1
        viol('C07.no_msa_no_crop', {'raised': f'{r.exc_type}@{r.site}', 'rows': rows})
    elif data_rows(r.chunk) != ref_crop(rows, None) or r.chunk.clouds_above_msa_buffer:
        viol('C07.no_msa_no_crop', {'rows': rows, 'chunk_rows': data_rows(r.chunk), 'flag': bool(r.chunk.clouds_above_msa_buffer)})
    res['digests'] = sorted(res['digests'])
    res['sample'] = {'cells': case['cells'], 'shape': case['shape'], 'placeholders': nA, 'runs': res['n']}
    return res
