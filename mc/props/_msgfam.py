"""Shared enumeration for C01 and C02: family L (layer tables x MSA positions x buffer), family M
(micro tables around the MSA x okta buffers) and the witness scenes W.

One case = one scene with ALL its parameter variants executed in sequence inside the case (so that a
replay carries the call history a stateful defect may need).
"""
import itertools

from .. import scenes

OKTA_REPS = [0, 2, 3, 5, 8]
L_HEIGHTS = [1000.0, 3000.0, 5000.0, 7000.0]
L_BASE_PRMS = {'MAX_HITS_OKTA0': 1, 'MAX_HOLES_OKTA8': 0}


def msa_menu(n_layers):
    hs = L_HEIGHTS[:n_layers]
    out = [None, 500.0]
    for h in hs:
        out += [h, h + 1000.0]
    return out


def l_cases(tier):
    okta_sets = []
    if tier == 'quick':
        for n in (1, 2, 3, 4):
            okta_sets += [list(t) for t in itertools.product(OKTA_REPS, repeat=n)]
    else:
        for n in (1, 2, 3):
            okta_sets += [list(t) for t in itertools.product(range(9), repeat=n)]
        okta_sets += [list(t) for t in itertools.product(OKTA_REPS, repeat=4)]
        okta_sets += [list(t) for t in itertools.product([1, 2, 4, 5, 7], repeat=4)]
    cases = []
    for oktas in okta_sets:
        variants = []
        menu = msa_menu(len(oktas))
        if tier == 'quick' and len(oktas) == 4:
            menu = [None, L_HEIGHTS[1], L_HEIGHTS[1] + 1000.0, L_HEIGHTS[2]]     # reduced MSA menu for the 625 4-layer tables
        for msa in menu:
            for buf in ((0.0, 1500.0) if msa is not None else (1500.0,)):
                p = dict(L_BASE_PRMS)
                p['MSA'] = msa
                p['MSA_HIT_BUFFER'] = buf
                variants.append(p)
        cases.append({'fam': 'L', 'oktas': oktas,
                      'scene': {'gen': 'layers', 'counts': [scenes.OKTA2COUNT_T16[o] for o in oktas],
                                'heights': L_HEIGHTS[:len(oktas)], 'T': 16},
                      'variants': variants})
    return cases


# micro tables: 2 ceilometers x T stamps around an MSA of 1500 ft (+ buffer 0 or 500)
M_MENU = [
    None,                                   # no row: unequal sampling
    [(None, 0)],                            # non-detection
    [(1000.0, 1)],
    [(1500.0, 1)],                          # exactly at the MSA
    [(1400.0, -1)],                         # VV
    [(1000.0, 1), (1900.0, 2)],             # second hit inside the buffer zone
    [(1000.0, 1), (4000.0, 2)],             # second hit above MSA+buffer
    [(4000.0, 1)],                          # first hit above MSA+buffer
    [(1900.0, 1), (4000.0, 2), (4300.0, 3)],
]


def m_variants(tier):
    out = []
    if tier == 'quick':
        out.append({'MSA': None, 'MSA_HIT_BUFFER': 1500.0, 'MAX_HITS_OKTA0': 1, 'MAX_HOLES_OKTA8': 0})
        for buf in (0.0, 500.0):
            for okta0 in (0, 1):
                out.append({'MSA': 1500.0, 'MSA_HIT_BUFFER': buf, 'MAX_HITS_OKTA0': okta0, 'MAX_HOLES_OKTA8': 0})
        return out
    for msa in (None, 1500.0):
        for buf in ((0.0, 500.0) if msa is not None else (1500.0,)):
            for okta0 in (0, 1, 3):
                for okta8 in (0, 1):
                    out.append({'MSA': msa, 'MSA_HIT_BUFFER': buf, 'MAX_HITS_OKTA0': okta0, 'MAX_HOLES_OKTA8': okta8})
    return out


def m_cases(tier):
    """quick: 1 ceilometer x 3 stamps over the full menu + 2 ceilometers x 2 stamps over a 6-entry
    sub-menu and over a 5-entry one; thorough: 1x4 and 2x2 over the full menu."""
    full = list(range(len(M_MENU)))
    # (second quick 2x2 sub-menu: one ceilometer's first hit above MSA+buffer while the other, at the SAME stamp, has a second hit below it)
    shapes = [(1, 3, full), (2, 2, [0, 1, 2, 3, 6, 8]), (2, 2, [1, 2, 5, 7, 8])] if tier == 'quick' else [(1, 4, full), (2, 2, full)]
    cases = []
    var = m_variants(tier)
    seen = set()
    for (C, T, menu_idx) in shapes:
        for cells in itertools.product(menu_idx, repeat=C * T):
            if all(M_MENU[c] is None for c in cells) or (C, T, cells) in seen:
                continue
            seen.add((C, T, cells))
            # canonical representative under swapping the two ceilometers (names are labels only: C16)
            if C == 2 and cells[T:] < cells[:T]:
                continue
            rows = scenes.micro_rows(cells, C, T, M_MENU)
            cases.append({'fam': 'M', 'shape': [C, T], 'cells': list(cells), 'scene': {'gen': 'rows', 'rows': rows},
                          'variants': var})
    return cases


def w_cases(tier):
    cases = []
    for name in scenes.witness_names():
        variants = [{}, {'MSA': 10000}, {'MSA': 3000, 'MSA_HIT_BUFFER': 0}, {'MSA': 5000, 'MAX_HITS_OKTA0': 0, 'MAX_HOLES_OKTA8': 0}]
        cases.append({'fam': 'W', 'name': name, 'scene': {'gen': 'witness', 'name': name}, 'variants': variants})
    cases.append({'fam': 'W', 'name': 'demo', 'scene': {'gen': 'demo'},
                  'variants': [{}, {'MSA': 10000}, {'MSA': 3000, 'MSA_HIT_BUFFER': 0}, {'MSA': 2000}]})
    # hand-made: a thick deck straddling the MSA (base percentile above its lowest hits), four reportable layers
    straddle = {'gen': 'decks', 'T': 60, 'decks': [{'h': 2000.0, 'n': 15, 'pattern': 'flat'},
                                                    {'h': 4950.0, 'n': 60, 'pattern': 'rampdown'}]}
    cases.append({'fam': 'W', 'name': 'straddle', 'scene': straddle,
                  'variants': [{'MSA': m} for m in (4940.0, 4950.0, 4960.0, 4970.0, 5000.0, 5100.0, 5200.0)]})
    four = {'gen': 'decks', 'T': 60, 'decks': [{'h': 1000.0, 'n': 15, 'where': 'first'}, {'h': 3000.0, 'n': 30, 'where': 'last'},
                                                {'h': 6000.0, 'n': 45, 'where': 'first'}, {'h': 9000.0, 'n': 60}]}
    cases.append({'fam': 'W', 'name': 'four', 'scene': four, 'variants': [{}, {'MSA': 9000.0}, {'MSA': 6000.0, 'MSA_HIT_BUFFER': 0}]})
    # sets overlapping in height range (order by base != order by lowest hit)
    from . import _deckfam
    for name, spec in _deckfam.streak_scenes(tier):
        cases.append({'fam': 'W', 'name': name, 'scene': spec, 'variants': [{}, {'MSA': 1300.0, 'MSA_HIT_BUFFER': 500.0}, {'MAX_HITS_OKTA0': 0}]})
    # climbing / descending decks whose base differs from their mean, minimum and maximum: MSA at every position relative to them
    for pat in ('rampup', 'rampdown'):
        deck = {'gen': 'decks', 'T': 40, 'decks': [{'h': 10000.0, 'n': 40, 'pattern': pat}]}
        variants = []
        for lb, perc in ((100, 5), (25, 5), (25, 100), (100, 100), (50, 50)):
            for msa in (9990.0, 10000.0, 10010.0, 10100.0, 10150.0, 10190.0, 10200.0, 10210.0):
                variants.append({'MSA': msa, 'MSA_HIT_BUFFER': 1500.0, 'BASE_LVL_LOOKBACK_PERC': lb, 'BASE_LVL_HEIGHT_PERC': perc, 'MAX_HITS_OKTA0': 3})
        cases.append({'fam': 'W', 'name': 'msa-vs-' + pat, 'scene': deck, 'variants': variants})
    # two (three) reportable layers whose bases share ONE height code (needs a minimum separation below the coding resolution)
    for (h1, h2, h3) in ((10100., 10900., None), (11050., 11950., None), (10010., 10400., 10900.), (1210., 1290., None)):
        for (n1, n2, n3) in ((6, 42, 50), (20, 42, 50), (42, 55, 60), (6, 20, 42), (42, 6, 42)):
            decks = [{'h': h1, 'n': n1, 'where': 'first'}, {'h': h2, 'n': n2, 'where': 'last'}]
            if h3:
                decks.append({'h': h3, 'n': n3})
            seps = {'MIN_SEP_VALS': [50, 300], 'MIN_SEP_LIMS': [10000]}
            cases.append({'fam': 'W', 'name': 'samebin:%g:%g:%s:%d:%d' % (h1, h2, h3, n1, n2), 'scene': {'gen': 'decks', 'T': 60, 'decks': decks},
                          'variants': [seps, {**seps, 'MSA': 15000.0}, {**seps, 'MSA': h2, 'MSA_HIT_BUFFER': 0.0}, {}]})
    # groups that inherit the ids of the slices but hold other hits (thick deck, pause, thin deck in its upper part): the three levels
    # carry different okta classes at the same table positions
    import itertools
    grid = (itertools.product((36, 40), (13,), (8, 11, 14), (1250., 1270., 1300.), (11, 7)) if tier == 'quick' else
            itertools.product((30, 36, 40), (10, 13, 16), (8, 11, 14), (1250., 1270., 1300.), (11, 7)))
    for args in grid:
        cases.append({'fam': 'W', 'name': 'regroup:' + ':'.join('%g' % x for x in args), 'scene': {'gen': 'regroup', 'args': list(args)},
                      'variants': [{}, {'MSA': 1250.0, 'MSA_HIT_BUFFER': 500.0}]})
    return cases


def all_cases(tier):
    return l_cases(tier) + m_cases(tier) + w_cases(tier)
