"""C20 - diagnostic plotting is total and free of side effects.

E2: explicit-state search over plot-call sequences in one process, on a pool of processed chunks
(no hits, a single hit, zero-okta layers, VV hits, more sets than marker styles, 11 ceilometers, MSA set,
splits/merges, reference scenes). The state is (chunk digest, dict(rcParams), open figures, directory
listing); every call must leave it unchanged, so the search closes after one level exactly when every
call is side-effect free - and then covers call sequences of any length. Oracle per call: no exception,
state unchanged, files written == files requested.
"""
import copy
import itertools
import os
import shutil
import tempfile
import warnings

from . import _deckfam
from .. import pipeline, scenes
from ..digest import chunk_state_digest, obj_digest

TITLE = 'diagnostic plot total and side-effect free'
EXPLORER = 'E2'
CLAUSES = ['C20.no_exception', 'C20.chunk_untouched', 'C20.rcparams', 'C20.figures', 'C20.files', 'C20.vv_chunk', 'C20.many_sets',
           'C20.many_ceilos', 'C20.no_hits', 'C20.zero_okta_layers', 'C20.second_call_in_process', 'C20.other_chunk_before', 'C20.index_gaps']
RULE = ('one case per chunk of the pool; call menu = upto {raw_data,slices,groups,layers} x show_ceilos {F,T} x reference METAR {none, given} x '
        'save {none, "png", ["png"], ["png","pdf"]} (quick: a 24-call sub-menu); BFS over call sequences with the state digest (rcParams, open '
        'figures, chunk, directory): depth 1 = every call from the clean state, depth 2 = every call from every NEW state (none when all calls are '
        'pure -> closed), plus all ordered pairs over an 6-call sub-menu executed back-to-back. transitions = plot calls judged')
ASSUMPTIONS = ["only the 'base' style (no TeX on this image); show=False; Agg back-end"]


def pool(tier):
    D = _deckfam.D
    rows = lambda r: {'gen': 'rows', 'rows': r}
    out = [
        ('no-hits', rows([['a', -30., None, 0], ['a', -15., None, 0], ['b', 0., None, 0]]), {}),
        ('single-hit', rows([['a', -30., None, 0], ['a', -15., 1000., 1], ['a', 0., None, 0]]), {}),
        ('zero-okta', D({'h': 1000., 'n': 2}, {'h': 3000., 'n': 3}, {'h': 6000., 'n': 30}, T=40), {}),
        ('vv', rows([['a', 0.0 - 15. * (11 - i), 300. + 7 * i, -1] for i in range(12)] + [['b', 0.0 - 15. * (11 - i), 2000., 1] for i in range(12)]), {}),
        ('ten-sets', D(*[{'h': 500. + 700. * k, 'n': 3, 'where': 'spread'} for k in range(10)], T=30), {'MAX_HITS_OKTA0': 0, 'SLICING_PRMS': {'distance_threshold': 0.05}}),
        ('eleven-ceilos', rows([['c%02d' % k, 0.0 - 15. * i, 1000. + 10 * k, 1] for k in range(11) for i in range(3)]), {}),
        ('merge+split+msa', D({'h': 1000., 'n': 40}, {'h': 1240., 'n': 40}, {'h': 2400., 'n': 40, 'pattern': 'halves400'}, {'h': 9000., 'n': 6, 'where': 'first'}),
         {'MSA': 5000}),
        ('bundle', D({'h': 1000., 'n': 40, 'pattern': 'rampup'}, {'h': 1210., 'n': 40, 'pattern': 'rampup'}), {}),
        ('all-vv-high', rows([['a', 0.0 - 15. * i, 20000., -1] for i in range(5)]), {'MSA': 10000}),
        # only higher hits, all cropped: the chunk is left without a single row
        # MSA crop that removes second hits in the middle of the table (index gaps) + VV hits
        ('msa-gaps-vv', rows([x for i in range(12) for x in ([['a', 0.0 - 15. * (11 - i), 1000. + 20 * (i % 4), 1]]
                                                              + ([['a', 0.0 - 15. * (11 - i), 9000., 2]] if i % 3 == 0 else [])
                                                              + [['b', 0.0 - 15. * (11 - i), 300. + 5 * i, -1]])]), {'MSA': 3000, 'MSA_HIT_BUFFER': 0}),
        ('all-cropped', rows([['a', -15., 5000., 2], ['a', 0., 5200., 2]]), {'MSA': 1500}),
    ]
    wn = scenes.witness_names()
    for name in (wn[::6] if tier == 'quick' else wn):
        out.append((name, {'gen': 'witness', 'name': name}, {}))
    if tier != 'quick':
        out.append(('demo', {'gen': 'demo'}, {'MSA': 10000}))
    return out


def call_menu(tier):
    menu = []
    for upto, sc, ref, save in itertools.product(('raw_data', 'slices', 'groups', 'layers'), (False, True), (None, ('FEW010 BKN030', 'obs')),
                                                 (None, 'png', ['png'], ['png', 'pdf'])):
        menu.append({'upto': upto, 'show_ceilos': sc, 'ref': ref, 'save': save})
    if tier == 'quick':
        keep = []
        for i, m in enumerate(menu):
            # all upto x show_ceilos with no file + rotating save/ref variants
            if (m['save'] is None and m['ref'] is None) or (i % 5 == 0):
                keep.append(m)
        menu = keep
    return menu


PAIR_MENU = [
    {'upto': 'raw_data', 'show_ceilos': True, 'ref': None, 'save': None},
    {'upto': 'raw_data', 'show_ceilos': False, 'ref': None, 'save': 'png'},
    {'upto': 'slices', 'show_ceilos': False, 'ref': ('OVC010', 'x'), 'save': None},
    {'upto': 'groups', 'show_ceilos': True, 'ref': None, 'save': None},
    {'upto': 'layers', 'show_ceilos': False, 'ref': None, 'save': ['png', 'pdf']},
    {'upto': 'layers', 'show_ceilos': True, 'ref': ('NCD', None), 'save': None},
]


def bound(tier):
    return '%d chunks x %d calls from the clean state (+ from every new state) + %d ordered pairs per chunk' % (
        len(pool(tier)), len(call_menu(tier)), len(PAIR_MENU) ** 2)


CROSS_CALLS = [
    {'upto': 'raw_data', 'show_ceilos': True, 'ref': None, 'save': None},
    {'upto': 'raw_data', 'show_ceilos': False, 'ref': None, 'save': None},
    {'upto': 'layers', 'show_ceilos': False, 'ref': None, 'save': 'png'},
    {'upto': 'groups', 'show_ceilos': True, 'ref': ('OVC010', 'x'), 'save': None},
]


def cross_pool():
    """Chunks of ONE site (same geoloc) that differ in ceilometer names / counts / index gaps: plotted one after the other in one process."""
    rows = lambda names, h: [[n, 0.0 - 15. * i, h + 10 * k, 1] for k, n in enumerate(names) for i in range(4)]
    D = _deckfam.D
    return [
        ('site-x12', {'gen': 'rows', 'rows': rows(['X-1', 'X-2'], 1000.)}, {}),
        ('site-x13', {'gen': 'rows', 'rows': rows(['X-1', 'X-3'], 2000.)}, {}),
        ('site-x11ceilos', {'gen': 'rows', 'rows': rows(['c%02d' % k for k in range(11)], 1500.)}, {}),
        ('site-msa-gaps', D({'h': 1000., 'n': 20, 'pattern': 'rampup'}, {'h': 1210., 'n': 20, 'pattern': 'rampup'}, {'h': 9000., 'n': 8, 'where': 'first'},
                            T=20, ceilos=['X-1', 'X-9']), {'MSA': 3000, 'MSA_HIT_BUFFER': 0}),
        ('site-gaps-vv', {'gen': 'rows', 'rows': [x for i in range(10) for x in ([['X-1', 0.0 - 15. * i, 1000. + 10 * i, 1]] + ([['X-1', 0.0 - 15. * i, 9000., 2]] if i % 2 else [])
                                                                                 + [['X-4', 0.0 - 15. * i, 400., -1]])]}, {'MSA': 3000, 'MSA_HIT_BUFFER': 0}),
    ]


STEP_GLOB = {'SLICING_PRMS': {'height_scale_mode': 'step-scale', 'height_scale_kwargs': {'steps': [8000, 14000], 'scales': [100, 500, 1000]}}}


def cases(tier):
    out = [{'name': n, 'scene': s, 'prms': p, 'tier': tier} for n, s, p in pool(tier)]
    p0 = pool(tier)
    out.append({'name': 'global-step-scale', 'scene': p0[6][1], 'prms': p0[6][2], 'tier': tier, 'glob': STEP_GLOB})
    out.append({'name': 'plot-under-other-global', 'scene': p0[6][1], 'prms': p0[6][2], 'tier': tier, 'plot_glob': STEP_GLOB})
    n = len(cross_pool())
    for first in range(n):
        out.append({'cross': True, 'first': first, 'name': 'cross-%d' % first, 'scene': {}, 'prms': {}, 'tier': tier})
    return out


def weight(case):
    return 5 if case['scene'].get('gen') in ('witness', 'demo') else 1


def rc_snapshot():
    import matplotlib
    return {k: repr(v) for k, v in dict(matplotlib.rcParams).items()}


def run_case(case):
    import matplotlib
    matplotlib.use('Agg')
    import matplotlib.pyplot as plt
    import ampycloud
    from ampycloud.plots import diagnostic
    res = {'n': 0, 'clauses': {}, 'digests': set(), 'violations': [], 'extra': {'states': 0, 'transitions': 0, 'traces': 0}}
    cl = res['clauses']

    def hit(c):
        cl[c] = cl.get(c, 0) + 1

    if case.get('cross'):
        return cross_case(case)
    rows = scenes.build(case['scene'])
    with warnings.catch_warnings():
        warnings.simplefilter('ignore')
        if case.get('glob'):
            # the chunk is processed while the GLOBAL parameters select another height scaling mode; the global is reset before plotting
            pipeline.set_global(case['glob'])
        try:
            chunk = ampycloud.run(scenes.frame(rows), prms=copy.deepcopy(case['prms']) or None, geoloc='Somewhere_x', ref_dt='2020-01-01 00:00:00')
        finally:
            ampycloud.reset_prms()
    tmpd = tempfile.mkdtemp(prefix='mc_c20_')
    feature = []
    if (chunk.data['type'] == -1).any():
        feature.append('C20.vv_chunk')
    if max(len(chunk.slices), len(chunk.groups), len(chunk.layers)) > 8:
        feature.append('C20.many_sets')
    if len(chunk.ceilos) > 10:
        feature.append('C20.many_ceilos')
    if chunk.n_slices == 0:
        feature.append('C20.no_hits')
    if len(chunk.layers) and (chunk.layers['okta'] == 0).any():
        feature.append('C20.zero_okta_layers')

    def state():
        return obj_digest([chunk_state_digest(chunk), rc_snapshot(), list(plt.get_fignums()), sorted(os.listdir(tmpd))])

    def do_call(m, hist):
        """Executes one plot call; returns list of (clause, detail)."""
        for fn in os.listdir(tmpd):
            os.remove(os.path.join(tmpd, fn))
        rc0, ch0 = rc_snapshot(), chunk_state_digest(chunk)
        stem = os.path.join(tmpd, 'plot') if m['save'] is not None else None
        kw = dict(upto=m['upto'], show_ceilos=m['show_ceilos'], show=False, save_stem=stem)
        if m['save'] is not None:
            kw['save_fmts'] = copy.deepcopy(m['save'])
        if m['ref'] is not None:
            kw['ref_metar'], kw['ref_metar_origin'] = m['ref']
        bad = []
        try:
            if case.get('plot_glob'):
                pipeline.set_global(case['plot_glob'])     # the global moved on to another configuration since the chunk was processed
            with warnings.catch_warnings():
                warnings.simplefilter('ignore')
                diagnostic(chunk, **kw)
        except Exception as e:
            bad.append(('C20.no_exception', {'raised': f'{type(e).__name__}: {str(e)[:200]}', 'at': pipeline.innermost_ampycloud_frame(e.__traceback__)}))
        finally:
            if case.get('plot_glob'):
                ampycloud.reset_prms()
        res['n'] += 1
        res['extra']['transitions'] += 1
        for c in ['C20.no_exception', 'C20.chunk_untouched', 'C20.rcparams', 'C20.figures', 'C20.files'] + feature:
            hit(c)
        if hist:
            hit('C20.second_call_in_process')
        if chunk_state_digest(chunk) != ch0:
            bad.append(('C20.chunk_untouched', {'what': 'chunk data / tables / parameters changed by the plot call'}))
        rc1 = rc_snapshot()
        if rc1 != rc0:
            diff = {k: [rc0.get(k), rc1.get(k)] for k in set(rc0) | set(rc1) if rc0.get(k) != rc1.get(k)}
            bad.append(('C20.rcparams', {'changed_keys': dict(list(diff.items())[:6])}))
        if plt.get_fignums():
            bad.append(('C20.figures', {'open_figures': list(plt.get_fignums())}))
        want = []
        if m['save'] is not None:
            fmts = [m['save']] if isinstance(m['save'], str) else list(m['save'])
            want = sorted('plot.' + f for f in fmts)
        got = sorted(os.listdir(tmpd))
        if got != want and not any(b[0] == 'C20.no_exception' for b in bad):
            bad.append(('C20.files', {'written': got, 'requested': want}))
        for fn in got:
            if os.path.getsize(os.path.join(tmpd, fn)) == 0:
                bad.append(('C20.files', {'empty_file': fn}))
        for clause, detail in bad:
            if len(res['violations']) < 30:
                res['violations'].append({'clause': clause, 'site': detail.get('at', m['upto']), 'detail': {'chunk': case['name'], 'call': m, 'after_calls': hist, **detail},
                                          'sub': {**{k: v for k, v in case.items() if k != 'only_calls'}, 'only_calls': hist + [m]}})
        return bad

    def cleanup_state():
        plt.close('all')
        matplotlib.rcParams.update(matplotlib.rcParamsDefault)
        matplotlib.use('Agg')

    try:
        if 'only_calls' in case:
            for i, m in enumerate(case['only_calls']):
                do_call(m, case['only_calls'][:i])
            res['extra']['states'] = 1
            res['digests'] = []
            return res
        s0 = state()
        seen = {s0}
        menu = call_menu(case['tier'])
        new_states = []
        for m in menu:                      # depth 1: every call from the clean state
            do_call(m, [])
            for fn in os.listdir(tmpd):
                os.remove(os.path.join(tmpd, fn))
            s1 = state()
            if s1 not in seen:
                seen.add(s1)
                new_states.append([m])
                plt.close('all')            # (a violation was recorded; go back to a comparable state for the next call)
        # depth 2: every call from every new state (none when all calls are pure)
        for hist in new_states[:4]:
            for m in menu:
                for h in hist:
                    do_call(h, [])
                do_call(m, hist)
        res['closed'] = not new_states
        # all ordered pairs of a sub-menu, back to back in this process (no clean-up in between)
        for m1, m2 in itertools.product(PAIR_MENU, repeat=2):
            b1 = do_call(m1, [])
            do_call(m2, [m1])
            res['extra']['traces'] += 1
        res['extra']['states'] = len(seen)
        res['digests'] = sorted(seen) + [case['name'] + m['upto'] for m in menu[:4]]
        res['sample'] = {'chunk': case['name'], 'msg': chunk.metar_msg(), 'sets': [len(chunk.slices), len(chunk.groups), len(chunk.layers)],
                         'ceilos': len(chunk.ceilos), 'calls': res['n'], 'closed': res['closed']}
    finally:
        shutil.rmtree(tmpd, ignore_errors=True)
        plt.close('all')
    return res


def cross_case(case):
    """All ordered pairs (chunk_i, call) -> (chunk_j, call) over chunks of one site, executed back to back in this process."""
    import matplotlib
    matplotlib.use('Agg')
    import matplotlib.pyplot as plt
    import ampycloud
    from ampycloud.plots import diagnostic
    res = {'n': 0, 'clauses': {}, 'digests': set(), 'violations': [], 'extra': {'states': 0, 'transitions': 0, 'traces': 0}}

    def hit(c):
        res['clauses'][c] = res['clauses'].get(c, 0) + 1

    chunks = []
    with warnings.catch_warnings():
        warnings.simplefilter('ignore')
        for name, spec, prms in cross_pool():
            chunks.append((name, ampycloud.run(scenes.frame(scenes.build(spec)), prms=copy.deepcopy(prms) or None, geoloc='Site X', ref_dt='2020-01-01')))
    tmpd = tempfile.mkdtemp(prefix='mc_c20x_')

    def one(ci, m, hist):
        name, chunk = chunks[ci]
        for fn in os.listdir(tmpd):
            os.remove(os.path.join(tmpd, fn))
        rc0, ch0 = rc_snapshot(), chunk_state_digest(chunk)
        kw = dict(upto=m['upto'], show_ceilos=m['show_ceilos'], show=False, save_stem=os.path.join(tmpd, 'p') if m['save'] else None)
        if m['save']:
            kw['save_fmts'] = m['save']
        if m['ref']:
            kw['ref_metar'], kw['ref_metar_origin'] = m['ref']
        bad = []
        try:
            with warnings.catch_warnings():
                warnings.simplefilter('ignore')
                diagnostic(chunk, **kw)
        except Exception as e:
            bad.append(('C20.no_exception', {'raised': f'{type(e).__name__}: {str(e)[:200]}', 'at': pipeline.innermost_ampycloud_frame(e.__traceback__)}))
        res['n'] += 1
        res['extra']['transitions'] += 1
        for c in ('C20.no_exception', 'C20.chunk_untouched', 'C20.rcparams', 'C20.figures', 'C20.files'):
            hit(c)
        if hist:
            hit('C20.other_chunk_before'); hit('C20.second_call_in_process')
        if len(chunk.data) and list(chunk.data.index) != list(range(len(chunk.data))):
            hit('C20.index_gaps')
        if chunk_state_digest(chunk) != ch0:
            bad.append(('C20.chunk_untouched', {}))
        if rc_snapshot() != rc0:
            bad.append(('C20.rcparams', {}))
        if plt.get_fignums():
            bad.append(('C20.figures', {'open_figures': list(plt.get_fignums())}))
            plt.close('all')
        want = ['p.' + m['save']] if m['save'] else []
        if sorted(os.listdir(tmpd)) != want and not bad:
            bad.append(('C20.files', {'written': sorted(os.listdir(tmpd)), 'requested': want}))
        for clause, detail in bad:
            if len(res['violations']) < 20:
                res['violations'].append({'clause': clause, 'site': detail.get('at', m['upto']),
                                          'detail': {'chunk': name, 'call': m, 'after': hist, **detail},
                                          'sub': {**{k: v for k, v in case.items() if k != 'only_pair'}, 'only_pair': hist_ids + [[ci, CROSS_CALLS.index(m)]]}})
    try:
        pairs = []
        for m1 in CROSS_CALLS:
            for cj in range(len(chunks)):
                for m2 in CROSS_CALLS:
                    pairs.append([[case['first'], CROSS_CALLS.index(m1)], [cj, CROSS_CALLS.index(m2)]])
        if 'only_pair' in case:
            pairs = [case['only_pair']]
        for pr in pairs:
            hist_ids = []
            for (ci, mi) in pr:
                one(ci, CROSS_CALLS[mi], [f'{chunks[a][0]}:{CROSS_CALLS[b]["upto"]}:{CROSS_CALLS[b]["show_ceilos"]}' for a, b in hist_ids])
                hist_ids = hist_ids + [[ci, mi]]
            res['extra']['traces'] += 1
        res['extra']['states'] = 1
        res['digests'] = [f'cross{case["first"]}:{i}' for i in range(min(len(pairs), 40))]
        res['sample'] = {'cross_first_chunk': chunks[case['first']][0], 'pairs': len(pairs)}
    finally:
        shutil.rmtree(tmpd, ignore_errors=True)
        plt.close('all')
    return res
