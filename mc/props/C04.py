"""C04 - base height = configured percentile, inside the layer, never coded upward.

E1 over family B (ramps make the look-back matter, two ceilometers make the exclusion matter) and
degenerate micro scenes x E3 (percentile x look-back crossed; exclusion lists, LOWESS settings and
row orders one deviation at a time). Oracle: every row of every table is recomputed from
``chunk.data`` / ``chunk.prms`` by a reference written from the statement, with accept-sets where the
statement leaves a choice (DESIGN 1.1).
"""
import itertools
import math
from fractions import Fraction

import numpy as np

from . import _deckfam
from .. import pipeline, scenes
from ..digest import obj_digest

TITLE = 'base height, statistics, flooring, order'
EXPLORER = 'E1'
CLAUSES = ['C04.base_in_range', 'C04.base_percentile', 'C04.stats', 'C04.fluffiness', 'C04.code_floor', 'C04.sorted',
           'C04.lookback_lt100', 'C04.excluded', 'C04.fallback', 'C04.single_hit', 'C04.frac_base', 'C04.lookback_integer_cut']
RULE = ('family B (two-deck, two-ceilometer incl. fall-back scenes, splits, degenerate sizes 1/2/3 hits, thick decks with '
        'fractional-foot bases near x00 ft) x (BASE_LVL_HEIGHT_PERC {0,5,50,100} x BASE_LVL_LOOKBACK_PERC {1,30,50,100}) + '
        'exclusion lists {[one],[other],[all],[unknown]} + LOWESS {frac 0.05/1, it 0} + row orders; every row of the three '
        'tables is recomputed; plus ALL (n hits, look-back p %) with n*p/100 an exact integer (n <= 120 quick / 300 thorough, p 1..99: the only '
        'points where a re-association of the float arithmetic can move the cut) on a rising ramp with percentile 0, where the base '
        'identifies the cut exactly. distinct_nontrivial = distinct (row statistics, parameters) digests')
ASSUMPTIONS = ['look-back of n hits at p%: the floor(n*p/100) or ceil(...) latest hits, or all hits when the floor is 0; ties in time '
               'at the cut: any tie-break (<=60 combinations enumerated, otherwise only the range clause is judged)',
               'percentile: any value between the lower and higher order statistics bracketing the rank is accepted',
               'std: sample or population; NaN or 0 for a single hit']


def _scene_list(tier):
    sc = (_deckfam.two_deck_scenes(tier, rich=False) + _deckfam.two_ceilo_scenes(tier) + _deckfam.split_scenes(tier)[:6]
          + _deckfam.degenerate_scenes(tier) + _deckfam.streak_scenes(tier)[:2] + _deckfam.double_split_scenes(tier)[:2])
    # bases with fractional feet just below / at coding boundaries (5th percentile interpolates between hits)
    D = _deckfam.D
    for h in (1999.96, 699.98, 11999.6, 9999.99, 10000.0, 10049.0, 99.99, 1000.0):
        sc.append(('frac:%g' % h, D({'h': h, 'n': 21, 'pattern': 'flat'}, {'h': h + 900.0, 'n': 3, 'where': 'first'}, T=21)))
        sc.append(('fracramp:%g' % h, {'gen': 'rows', 'rows': [['a', -15.0 * (20 - i), h - 0.05 + 0.013 * i, 1] for i in range(21)]}))
    return sc


def variants_for(name, tier):
    out = []
    for perc, lb in itertools.product((0, 5, 50, 100), (1, 30, 50, 100)):
        out.append(('byceilo', {'BASE_LVL_HEIGHT_PERC': perc, 'BASE_LVL_LOOKBACK_PERC': lb}))
    for order in (('desc', 'evenodd') if tier == 'quick' else ('asc', 'desc', 'evenodd', 'rotated')):
        out.append((order, {'BASE_LVL_LOOKBACK_PERC': 50}))
        out.append((order, {'BASE_LVL_LOOKBACK_PERC': 30, 'BASE_LVL_HEIGHT_PERC': 50}))
    for lo in ({'frac': 0.05}, {'frac': 1.0}, {'it': 0}):
        out.append(('byceilo', {'LOWESS': lo}))
    if name.startswith('2c:'):
        for excl in (['b'], ['a'], ['a', 'b'], ['zz']):
            for okta0 in (3, 0):
                out.append(('byceilo', {'EXCLUDE_FOR_BASE_HEIGHT_CALC': excl, 'MAX_HITS_OKTA0': okta0}))
            out.append(('desc', {'EXCLUDE_FOR_BASE_HEIGHT_CALC': excl, 'BASE_LVL_LOOKBACK_PERC': 50, 'BASE_LVL_HEIGHT_PERC': 50}))
    return out


def bound(tier):
    return 'B: %d scenes x ~25-40 parameter/order variants' % len(_scene_list(tier))


def ulp_ns(p, tier):
    nmax = 120 if tier == 'quick' else 300
    return [n for n in range(2, nmax + 1) if (n * p) % 100 == 0]


def cases(tier):
    out = [{'name': name, 'scene': spec, 'tier': tier} for name, spec in _scene_list(tier)]
    out += [{'name': 'ulp:%d' % p, 'ulp_p': p, 'tier': tier} for p in range(1, 100) if ulp_ns(p, tier)]
    return out


def ref_height_code(base):
    hf = Fraction(base)
    return math.floor(hf / 100) if hf <= 10000 else math.floor(hf / 1000) * 10


def base_accept(members, prms):
    """members: list of (dt, ceilo, height) of ONE set. Returns (lo, hi) accept interval list or None if not judged."""
    excl = pipeline.effective(prms, 'EXCLUDE_FOR_BASE_HEIGHT_CALC')
    okta0 = pipeline.effective(prms, 'MAX_HITS_OKTA0')
    lb = pipeline.effective(prms, 'BASE_LVL_LOOKBACK_PERC')
    perc = pipeline.effective(prms, 'BASE_LVL_HEIGHT_PERC')
    sel = members
    info = {'excluded': False, 'fallback': False}
    if excl:
        filt = [m for m in members if m[1] not in excl]
        if len(filt) > okta0:
            sel = filt
            info['excluded'] = len(filt) < len(members)
        else:
            info['fallback'] = True
    n = len(sel)
    ks = {math.floor(n * lb / 100), math.ceil(n * lb / 100)}
    if math.floor(n * lb / 100) == 0:
        ks.add(n)
    ks = {k for k in ks if 1 <= k <= n}
    srt = sorted(sel, key=lambda m: m[0])
    intervals = []
    for k in ks:
        cut_dt = srt[n - k][0]
        sure = [m[2] for m in srt if m[0] > cut_dt]
        tied = [m[2] for m in srt if m[0] == cut_dt]
        need = k - len(sure)
        ncomb = math.comb(len(tied), need)
        if ncomb > 60:
            return None, info
        for combo in itertools.combinations(tied, need):
            vals = sorted(sure + list(combo))
            rank = (len(vals) - 1) * perc / 100.0
            intervals.append((vals[math.floor(rank)], vals[math.ceil(rank)]))
    return intervals, info


def close(a, b, rel=1e-9):
    if a is None or b is None:
        return False
    if math.isnan(a) and math.isnan(b):
        return True
    return abs(a - b) <= rel * max(1.0, abs(a), abs(b))


def judge(res, r, prms, sub, scene_name):
    cl = res['clauses']

    def hit(c):
        cl[c] = cl.get(c, 0) + 1

    def viol(clause, which, detail):
        detail = dict(detail); detail.update({'which': which, 'prms': prms, 'scene': scene_name})
        res['violations'].append({'clause': clause, 'site': f'metarize({which})', 'detail': detail, 'sub': sub})

    data = r.chunk.data
    dts, ceilos, hs = data['dt'].tolist(), [str(c) for c in data['ceilo'].tolist()], data['height'].tolist()
    for which in pipeline.LEVELS:
        tab = getattr(r.chunk, which)
        ids = data[which[:-1] + '_id'].tolist()
        rows = pipeline.table_rows(tab)
        bases = [x['height_base'] for x in rows]
        hit('C04.sorted')
        if any(b2 < b1 for b1, b2 in zip(bases, bases[1:])):
            viol('C04.sorted', which, {'bases': bases})
        for row in rows:
            cid = row['cluster_id']
            members = [(d, c, h) for d, c, h, i in zip(dts, ceilos, hs, ids) if i == cid and h == h]
            if not members:
                continue
            hv = np.array([m[2] for m in members], dtype=float)
            base = row['height_base']
            hit('C04.base_in_range')
            if not (hv.min() <= base <= hv.max()):
                viol('C04.base_in_range', which, {'cluster_id': cid, 'base': base, 'min': float(hv.min()), 'max': float(hv.max())})
            acc, info = base_accept(members, prms)
            if info['excluded']:
                hit('C04.excluded')
            if info['fallback']:
                hit('C04.fallback')
            if pipeline.effective(prms, 'BASE_LVL_LOOKBACK_PERC') < 100:
                hit('C04.lookback_lt100')
            if acc is not None:
                hit('C04.base_percentile')
                if not any(lo - 1e-9 <= base <= hi + 1e-9 for lo, hi in acc):
                    viol('C04.base_percentile', which, {'cluster_id': cid, 'base': base, 'accepted_intervals': sorted(set(acc))[:8],
                                                        'n_members': len(members), 'info': info})
            hit('C04.stats')
            if len(hv) == 1:
                hit('C04.single_hit')
            std_ok = (close(row['height_std'], float(hv.std(ddof=1))) if len(hv) > 1 else False) or close(row['height_std'], float(hv.std(ddof=0))) \
                or (len(hv) == 1 and (math.isnan(row['height_std']) or row['height_std'] == 0))
            if not (close(row['height_min'], float(hv.min())) and close(row['height_max'], float(hv.max()))
                    and close(row['height_mean'], float(hv.mean())) and std_ok
                    and close(row['thickness'], float(hv.max() - hv.min()))):
                viol('C04.stats', which, {'cluster_id': cid, 'row': {k: row[k] for k in ('height_min', 'height_max', 'height_mean', 'height_std', 'thickness')},
                                          'expected': {'min': float(hv.min()), 'max': float(hv.max()), 'mean': float(hv.mean()),
                                                       'std_sample': float(hv.std(ddof=1)) if len(hv) > 1 else None, 'std_pop': float(hv.std(ddof=0))}})
            hit('C04.fluffiness')
            fl = row['fluffiness']
            if not (isinstance(fl, float) and math.isfinite(fl) and fl >= 0):
                viol('C04.fluffiness', which, {'cluster_id': cid, 'fluffiness': repr(fl)})
            hit('C04.code_floor')
            if base != int(base):
                hit('C04.frac_base')
            code = str(row['code'])
            digits = code[-3:]
            exp = ref_height_code(base)
            if not (digits.isdigit() and int(digits) == exp and Fraction(int(digits) * 100) <= Fraction(base)):
                viol('C04.code_floor', which, {'cluster_id': cid, 'base': base, 'code': code, 'expected_digits': f'{exp:03d}'})
            res['digests'].add(obj_digest([which, base, row['height_min'], row['height_max'], len(members), prms]))


def run_ulp(case):
    res = {'n': 0, 'clauses': {}, 'digests': set(), 'violations': [], 'crashed': 0}
    p = case['ulp_p']
    ns = ulp_ns(p, case['tier'])
    if 'only_variant' in case:
        ns = ns[:case['only_variant'] + 1]
    prms = {'BASE_LVL_LOOKBACK_PERC': p, 'BASE_LVL_HEIGHT_PERC': 0}
    for vi, n in enumerate(ns):
        # rising ramp, one hit per time step, 0.5 ft per step: with percentile 0 the base IS the oldest hit of the look-back window
        rows = [['a', -15.0 * (n - 1 - i), 1000.0 + 0.5 * i, 1] for i in range(n)]
        r = pipeline.run(rows, prms, msgs=False)
        res['n'] += 1
        sub = {**{k: v for k, v in case.items() if k != 'only_variant'}, 'only_variant': vi}
        if not r.ok:
            res['crashed'] += 1
            continue
        res['clauses']['C04.lookback_integer_cut'] = res['clauses'].get('C04.lookback_integer_cut', 0) + 1
        judge(res, r, prms, sub, '%s:n=%d' % (case['name'], n))
    res['digests'] = sorted(res['digests'])
    res['sample'] = {'scene': case['name'], 'variants': len(ns)}
    return res


def run_case(case):
    if 'ulp_p' in case:
        return run_ulp(case)
    res = {'n': 0, 'clauses': {}, 'digests': set(), 'violations': [], 'crashed': 0}
    variants = variants_for(case['name'], case['tier'])
    if 'only_variant' in case:
        variants = variants[:case['only_variant'] + 1]
    for vi, (order, prms) in enumerate(variants):
        spec = case['scene']
        if isinstance(spec, dict) and spec.get('gen') == 'decks':
            spec = dict(spec); spec['order'] = order
            rows = scenes.build(spec)
        else:
            rows = scenes.reorder(scenes.build(spec), order)
        r = pipeline.run(rows, prms, msgs=False)
        res['n'] += 1
        sub = {**{k: v for k, v in case.items() if k != 'only_variant'}, 'only_variant': vi}
        if not r.ok:
            res['crashed'] += 1
            continue
        judge(res, r, prms, sub, case['name'])
    res['digests'] = sorted(res['digests'])
    res['sample'] = {'scene': case['name'], 'variants': len(variants)}
    return res
