"""C18 - WMO conversions: okta binning, okta abbreviations and height flooring.

E1: all (n, m) pairs, all integer feet, the floating-point neighbours of every coding boundary, all
small integers and a menu of non-integer types, each fed to the real functions and compared with
references in exact (rational / integer) arithmetic written from the property statement.
"""
from fractions import Fraction
import math

TITLE = 'WMO conversions'
EXPLORER = 'E1'
CLAUSES = ['C18.p2o_dtypes', 'C18.p2o_value', 'C18.p2o_monotone', 'C18.p2o_range', 'C18.p2o_array', 'C18.p2o_tie',
           'C18.o2c_table', 'C18.o2c_refuse', 'C18.h2c_floor', 'C18.h2c_monotone', 'C18.h2c_boundary']
RULE = ('perc2okta: every pair 0<=n<=m<=M as the float n/m*100 (python float, python int when exact, '
        'and one ndarray call per m; whole-number percentages in 11 numpy dtypes); okta2code: integers -2..11 and a menu of non-int values; '
        'height2code: every integer foot in [0,1e5) as int and float plus +-1,+-2 ulp around every '
        'coding boundary. distinct_nontrivial = distinct (function, output) pairs observed')
ASSUMPTIONS = ['ties at x.5 okta accept both neighbouring oktas ("nearest")',
               'numpy scalars / bools fed to okta2code, numpy scalars other than float64 and NaN fed to perc2okta are not judged (documented input: int|float|ndarray)']


def bound(tier):
    M = 2500 if tier == 'quick' else 6000
    return f'perc2okta: all 0<=n<=m<={M}; height2code: all integer feet < 100000 + boundary ulps; okta2code: -2..11 + 9 non-int values'


def cases(tier):
    M = 2500 if tier == 'quick' else 6000
    step = 25
    out = []
    for lo in range(1, M + 1, step):
        out.append({'fn': 'perc2okta', 'm_lo': lo, 'm_hi': min(lo + step - 1, M)})
    out.append({'fn': 'perc2okta_refuse'})
    out.append({'fn': 'perc2okta_dtypes'})
    out.append({'fn': 'okta2code'})
    for lo in range(0, 100000, 5000):
        out.append({'fn': 'height2code', 'lo': lo, 'hi': lo + 5000})
    return out


def accept_oktas(n, m):
    """From the statement: 0 only for n=0, 8 only for n=m, otherwise nearest okta clipped to 1..7."""
    if n == 0:
        return {0}
    if n == m:
        return {8}
    x = Fraction(8 * n, m)
    fl = math.floor(x)
    frac = x - fl
    if frac == Fraction(1, 2):
        cands = {fl, fl + 1}
    elif frac < Fraction(1, 2):
        cands = {fl}
    else:
        cands = {fl + 1}
    return {min(7, max(1, c)) for c in cands}


def ref_height_code(h):
    """Exact floor to 100 ft up to 10000 ft, to 1000 ft above; h int or float (exact via Fraction)."""
    hf = Fraction(h)
    if hf <= 10000:
        return math.floor(hf / 100)
    return math.floor(hf / 1000) * 10


def run_case(case):
    import numpy as np
    from ampycloud import wmo
    from ampycloud.errors import AmpycloudError
    res = {'n': 0, 'clauses': {}, 'digests': set(), 'violations': []}
    cl = res['clauses']

    def hit(c, k=1):
        cl[c] = cl.get(c, 0) + k

    def viol(clause, site, detail, sub=None):
        if len(res['violations']) < 20:
            v = {'clause': clause, 'site': site, 'detail': detail}
            if sub is not None:
                v['sub'] = sub
            res['violations'].append(v)

    fn = case['fn']
    if fn == 'perc2okta':
        for m in range(case['m_lo'], case['m_hi'] + 1):
            if 'only_n' in case and m != case['m_hi']:
                continue
            prev = None
            scal = []
            for n in range(0, m + 1):
                p = n / m * 100
                acc = accept_oktas(n, m)
                try:
                    got = wmo.perc2okta(p)
                    res['n'] += 1
                    g = int(got[0]) if np.ndim(got) == 1 and len(got) == 1 else None
                except Exception as e:
                    g = 'EXC:' + type(e).__name__
                scal.append(g)
                hit('C18.p2o_value')
                if len(acc) == 2:
                    hit('C18.p2o_tie')
                if g not in acc:
                    viol('C18.p2o_value', 'wmo.perc2okta', {'n': n, 'm': m, 'perc': p, 'got': repr(g), 'accept': sorted(acc)},
                         {'fn': 'perc2okta', 'm_lo': m, 'm_hi': m})
                if isinstance(g, int):
                    hit('C18.p2o_range')
                    if (g == 0) != (n == 0) or (g == 8) != (n == m) or not 0 <= g <= 8:
                        viol('C18.p2o_range', 'wmo.perc2okta', {'n': n, 'm': m, 'got': g},
                             {'fn': 'perc2okta', 'm_lo': m, 'm_hi': m})
                    if prev is not None and isinstance(prev, int):
                        hit('C18.p2o_monotone')
                        if g < prev:
                            viol('C18.p2o_monotone', 'wmo.perc2okta', {'n': n, 'm': m, 'got': g, 'prev': prev},
                                 {'fn': 'perc2okta', 'm_lo': m, 'm_hi': m})
                    res['digests'].add(f'p2o:{g}')
                prev = g
                # python int input where the percentage is an exact integer
                if (100 * n) % m == 0:
                    pi = (100 * n) // m
                    try:
                        gi = int(wmo.perc2okta(pi)[0])
                    except Exception as e:
                        gi = 'EXC:' + type(e).__name__
                    res['n'] += 1
                    if gi not in acc:
                        viol('C18.p2o_value', 'wmo.perc2okta', {'n': n, 'm': m, 'perc_int': pi, 'got': repr(gi), 'accept': sorted(acc)},
                             {'fn': 'perc2okta', 'm_lo': m, 'm_hi': m})
            # one whole-row array call, must agree element-wise with the scalar calls
            arr = np.array([n / m * 100 for n in range(m + 1)])
            keep = arr.copy()
            try:
                ga = wmo.perc2okta(arr)
                res['n'] += 1
                ga_l = [int(x) for x in ga]
            except Exception as e:
                ga_l = 'EXC:' + type(e).__name__
            hit('C18.p2o_array')
            if ga_l != scal or not np.array_equal(arr, keep):
                viol('C18.p2o_array', 'wmo.perc2okta', {'m': m, 'array_result': repr(ga_l)[:300], 'scalar_results': repr(scal)[:300],
                                                         'input_mutated': not np.array_equal(arr, keep)},
                     {'fn': 'perc2okta', 'm_lo': m, 'm_hi': m})
    elif fn == 'perc2okta_dtypes':
        # whole-number percentages (m = 100, 50, 25, 20, 10, 5, 4, 2, 1) held in every numeric numpy dtype, as an array (numpy SCALARS other than
        # float64 are not among the documented input types int|float|ndarray: perc2okta(np.int8(0)) raises IndexError on the unchanged tree; not judged)
        for m in (100, 50, 25, 20, 10, 5, 4, 2, 1):
            ns = list(range(m + 1))
            percs = [100 * n // m for n in ns]
            accs = [accept_oktas(n, m) for n in ns]
            for dt in ('int8', 'uint8', 'int16', 'uint16', 'int32', 'uint32', 'int64', 'uint64', 'float16', 'float32', 'float64'):
                arr = np.array(percs, dtype=dt)
                keep = arr.copy()
                hit('C18.p2o_dtypes')
                res['n'] += 1
                try:
                    got = [int(x) for x in wmo.perc2okta(arr)]
                except Exception as e:
                    got = 'EXC:' + repr(e)[:80]
                if not isinstance(got, list) or len(got) != len(ns) or any(g not in a for g, a in zip(got, accs)) or not np.array_equal(arr, keep):
                    viol('C18.p2o_dtypes', 'wmo.perc2okta', {'m': m, 'dtype': dt, 'percentages': percs[:12], 'got': repr(got)[:200],
                                                             'accepted': [sorted(a) for a in accs][:12]})
                res['digests'].add(f'p2o:{dt}')
    elif fn == 'perc2okta_refuse':
        bad = [-1e-9, -0.1, -1, 100.0000001, 100.1, 101, 1e6, -1e6, np.nextafter(100.0, 200.0), np.nextafter(0.0, -1.0),
               np.array([50.0, 100.1]), np.array([-0.1, 50.0])]
        for v in bad:
            hit('C18.p2o_range')
            try:
                got = wmo.perc2okta(v)
                viol('C18.p2o_range', 'wmo.perc2okta', {'input': repr(v), 'got': repr(got), 'expected': 'AmpycloudError'})
            except AmpycloudError:
                pass
            except Exception as e:
                viol('C18.p2o_range', 'wmo.perc2okta', {'input': repr(v), 'raised': type(e).__name__, 'expected': 'AmpycloudError'})
            res['n'] += 1
        for v, exp in [(0.0, 0), (100.0, 8), (0, 0), (100, 8)]:   # (sub-normal percentages are outside the n/m domain)
            hit('C18.p2o_range')
            try:
                g = int(wmo.perc2okta(v)[0])
            except Exception as e:
                g = 'EXC:' + type(e).__name__
            res['n'] += 1
            if g != exp:
                viol('C18.p2o_range', 'wmo.perc2okta', {'input': repr(v), 'got': repr(g), 'expected': exp})
    elif fn == 'okta2code':
        table = {0: 'NCD', 1: 'FEW', 2: 'FEW', 3: 'SCT', 4: 'SCT', 5: 'BKN', 6: 'BKN', 7: 'BKN', 8: 'OVC', 9: None}
        for v in range(-2, 12):
            res['n'] += 1
            try:
                got = wmo.okta2code(v)
                exc = None
            except Exception as e:
                got, exc = None, e
            if v in table:
                hit('C18.o2c_table')
                if exc is not None or got != table[v]:
                    viol('C18.o2c_table', 'wmo.okta2code', {'input': v, 'got': repr(got), 'raised': repr(exc), 'expected': table[v]})
                res['digests'].add(f'o2c:{got}')
            else:
                hit('C18.o2c_refuse')
                if not isinstance(exc, AmpycloudError):
                    viol('C18.o2c_refuse', 'wmo.okta2code', {'input': v, 'got': repr(got), 'raised': repr(exc), 'expected': 'AmpycloudError'})
        for v in [1.0, 1.5, '1', None, [1], (1,), 8.0, 'FEW', {1}]:
            res['n'] += 1
            hit('C18.o2c_refuse')
            try:
                got = wmo.okta2code(v)
                viol('C18.o2c_refuse', 'wmo.okta2code', {'input': repr(v), 'got': repr(got), 'expected': 'AmpycloudError'})
            except AmpycloudError:
                pass
            except Exception as e:
                viol('C18.o2c_refuse', 'wmo.okta2code', {'input': repr(v), 'raised': type(e).__name__, 'expected': 'AmpycloudError'})
    elif fn == 'height2code':
        lo, hi = case['lo'], case['hi']
        prev = None
        if lo > 0:
            prev = int(wmo.height2code(lo - 1))
        for h in range(lo, hi):
            exp = ref_height_code(h)
            for val in (h, float(h)):
                res['n'] += 1
                got = wmo.height2code(val)
                hit('C18.h2c_floor')
                ok = isinstance(got, str) and len(got) == 3 and got.isdigit() and int(got) == exp
                if not ok:
                    viol('C18.h2c_floor', 'wmo.height2code', {'input': repr(val), 'got': repr(got), 'expected': f'{exp:03d}'},
                         {'fn': 'height2code', 'lo': h, 'hi': h + 1})
            if isinstance(got, str) and got.isdigit():
                g = int(got)
                hit('C18.h2c_monotone')
                if prev is not None and g < prev:
                    viol('C18.h2c_monotone', 'wmo.height2code', {'input': h, 'got': g, 'previous': prev},
                         {'fn': 'height2code', 'lo': max(h - 1, 0), 'hi': h + 1})
                if g * 100 > h:
                    viol('C18.h2c_floor', 'wmo.height2code', {'input': h, 'got': g, 'coded_exceeds_input': True},
                         {'fn': 'height2code', 'lo': h, 'hi': h + 1})
                prev = g
                res['digests'].add(f'h2c:{got}')
            # float neighbours of coding boundaries
            is_boundary = (h % 100 == 0 and h <= 10000) or (h % 1000 == 0 and h > 10000) or h == 10000
            if is_boundary and h > 0:
                x = float(h)
                neigh = [np.nextafter(x, 0.0), np.nextafter(np.nextafter(x, 0.0), 0.0),
                         np.nextafter(x, 1e9), np.nextafter(np.nextafter(x, 1e9), 1e9),
                         x - 1e-9, x + 1e-9, x - 0.5, x + 0.5]
                for val in neigh:
                    val = float(val)
                    res['n'] += 1
                    hit('C18.h2c_boundary')
                    got = wmo.height2code(val)
                    exp_b = ref_height_code(val)
                    if not (isinstance(got, str) and got.isdigit() and len(got) == 3 and int(got) == exp_b
                            and Fraction(int(got) * 100) <= Fraction(val)):
                        viol('C18.h2c_boundary', 'wmo.height2code', {'input': val.hex(), 'got': repr(got), 'expected': f'{exp_b:03d}'},
                             {'fn': 'height2code', 'lo': h, 'hi': h + 1})
    res['digests'] = sorted(res['digests'])
    res['sample'] = {'case': case, 'executions': res['n']}
    return res
