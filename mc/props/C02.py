"""C02 - lowest layer and ceiling are never suppressed; NCD / NSC mean what they say.

Same enumeration as C01 (family L is built for under-reporting). Oracle: a reference decision
procedure written from the statement; inputs = the public layers table (okta, base, code), the MSA
and the number of input hits above MSA+buffer counted from the CALLER's rows (not the chunk flag).
"""
from . import _msgfam
from .. import pipeline, scenes
from ..digest import obj_digest

TITLE = 'lowest layer and ceiling never suppressed; NCD/NSC exact'
EXPLORER = 'E1'
CLAUSES = ['C02.first_is_lowest', 'C02.ceiling_present', 'C02.groups_listed', 'C02.ncd_only_if', 'C02.nsc_iff',
           'C02.nsc_expected', 'C02.ncd_expected', 'C02.flag_matches_count']
RULE = _msgfam_rule = ('same cases as C01 (family L: okta tuples x MSA positions x buffer; family M: micro tables '
                       'around the MSA x okta0/okta8; W: reference scenes); the layers message of every run is compared '
                       'with the reference decision procedure. distinct_nontrivial = distinct (message, okta tuple, '
                       'positions relative to the MSA, hits above the limit vs MAX_HITS_OKTA0) classes')
ASSUMPTIONS = ['the number of cropped hits is recounted by the harness from the input rows',
               'rows sharing the lowest base: any of their codes is accepted as first group']


def bound(tier):
    from . import C01
    return C01.bound(tier)


def cases(tier):
    return _msgfam.all_cases(tier)


def run_case(case):
    rows = scenes.build(case['scene'])
    res = {'n': 0, 'clauses': {}, 'digests': [], 'violations': [], 'crashed': 0}
    variants = case['variants'] if 'only_variant' not in case else case['variants'][:case['only_variant'] + 1]
    for vi, prms in enumerate(variants):
        r = pipeline.run(rows, prms)
        res['n'] += 1
        sub = dict(case); sub['only_variant'] = vi
        if not r.ok:
            res['crashed'] += 1
            res['violations'].append({**pipeline.crash_violation(r, 'C02.first_is_lowest'), 'sub': sub})
            continue
        msa = r.chunk.msa
        okta0 = pipeline.effective(prms, 'MAX_HITS_OKTA0')
        n_above = pipeline.hits_above_limit(rows, prms)
        bad, ex = pipeline.check_underreporting(r.msgs['layers'], r.chunk.layers, msa, n_above, okta0)
        # the public flag must say the same as the recount
        ex.append('C02.flag_matches_count')
        if bool(r.chunk.clouds_above_msa_buffer) != (n_above > okta0):
            bad.append(('C02.flag_matches_count', {'flag': bool(r.chunk.clouds_above_msa_buffer), 'hits_above_limit': n_above,
                                                   'MAX_HITS_OKTA0': okta0}))
        for c in ex:
            res['clauses'][c] = res['clauses'].get(c, 0) + 1
        for clause, detail in bad:
            detail = dict(detail); detail.update({'prms': prms})
            res['violations'].append({'clause': clause, 'site': 'metar_msg(layers)', 'detail': detail, 'sub': sub})
        tab = pipeline.table_rows(r.chunk.layers)
        msa_v = float('inf') if msa is None else msa
        res['digests'].append(obj_digest([r.msgs['layers'], [(t['okta'], t['height_base'] < msa_v) for t in tab], n_above > okta0]))
    res['sample'] = {'fam': case['fam'], 'scene': case.get('oktas', case.get('cells', case.get('name'))),
                     'variants': len(case['variants'])}
    return res
