"""C03 - hit counts, percentages and oktas are exactly what the hits imply.

E1: (i) family CT - for every total up to the bound, EVERY count 0..total x okta0 x okta8, realised
as one flat deck (one or two ceilometers); the whole count sweep of one total runs inside one case
so that monotonicity is judged on the real outputs and a stateful defect sees its history;
(ii) family M3 - every micro table with 2 ceilometers (coincident or offset stamps), absent cells,
multi-hit cells inside one deck and across decks.
Oracle: reference counting with Python sets over chunk.data's per-hit ids, exact rational binning.
"""
import itertools

from .. import pipeline, scenes
from ..digest import obj_digest

TITLE = 'hit counts, percentages, oktas'
EXPLORER = 'E1'
CLAUSES = ['C03.n_hits', 'C03.perc', 'C03.okta_rule', 'C03.okta_monotone', 'C03.code_prefix', 'C03.total',
           'C03.okta0_edge', 'C03.okta8_edge', 'C03.tie', 'C03.multi_hit_once', 'C03.merged_group', 'C03.regrouped']
RULE = ('CT: all (count,total) pairs 0<=count<=total<=N x MAX_HITS_OKTA0 {0,1,3} x MAX_HOLES_OKTA8 {0,1,2}, one '
        'case per total (and per number of ceilometers); M3: all 2x2 tables over an 8-entry cell menu (same-deck '
        'double hits, cross-deck double hits, absent cells) x coincident/offset stamps x okta0 {0,1}. Every row of '
        'the three tables of every run is judged; family B: deck scenes in which slices are merged into groups (two decks 200..460 ft apart, '
        'chains, two ceilometers, thick deck / pause / thin deck) so that the three tables hold DIFFERENT sets. distinct_nontrivial = distinct (n_hits,total,okta,params) tuples seen')
ASSUMPTIONS = ['x.5-okta ties accept both neighbouring oktas', 'totals beyond the bound are not decided']

BUFS = [(o0, o8) for o0 in (0, 1, 3) for o8 in (0, 1, 2)]
M3_MENU = [
    None,
    [(None, 0)],
    [(1000.0, 1)],
    [(1000.0, 1), (1040.0, 2)],                  # two hits in one deck -> counted once
    [(1000.0, 1), (3000.0, 2)],                  # two decks
    [(3000.0, 1)],
    [(1000.0, 1), (1040.0, 2), (3000.0, 3)],
    [(1040.0, 2)],                               # a measurement holding only a second hit (warning-only anomaly)
]


def bound(tier):
    n = 24 if tier == 'quick' else 64
    return f'CT: totals 1..{n} (all counts, 9 buffer settings); M3: 2 ceilometers x 2 stamps' + (' and x 3 stamps over a 5-entry sub-menu' if tier != 'quick' else '')


def cases(tier):
    N = 24 if tier == 'quick' else 64
    out = []
    for total in range(1, N + 1):
        out.append({'fam': 'CT', 'total': total, 'n_ceilos': 1})
    for total in ((2, 4, 7, 12, 16, 21) if tier == 'quick' else range(2, 41)):
        out.append({'fam': 'CT', 'total': total, 'n_ceilos': 2})
    shapes = [(2, 2, range(len(M3_MENU)))] if tier == 'quick' else [(2, 2, range(len(M3_MENU))), (2, 3, (0, 1, 2, 3, 4))]
    for (C, T, menu) in shapes:
        for cells in itertools.product(menu, repeat=C * T):
            if all(M3_MENU[c] is None for c in cells) or cells[T:] < cells[:T]:
                continue
            out.append({'fam': 'M3', 'shape': [C, T], 'cells': list(cells)})
    # sets that differ between the three levels: slices merged into one group, groups re-clustered in time, groups split into layers
    from . import _deckfam
    bsc = (_deckfam.two_deck_scenes('quick', rich=False)[::(3 if tier == 'quick' else 1)] + _deckfam.chain_scenes('quick')[::2]
           + _deckfam.two_ceilo_scenes('quick')[::3] + _deckfam.split_scenes('quick')[::3] + _deckfam.streak_scenes()[:2])
    for args in itertools.product((36, 40), (13,), (8, 14), (1250., 1300.), (11, 7)):
        bsc.append(('regroup:' + ':'.join('%g' % x for x in args), {'gen': 'regroup', 'args': list(args)}))
    for name, spec in bsc:
        out.append({'fam': 'B', 'name': name, 'scene': spec})
    return out


def weight(case):
    return (case['total'] + 1) * 9 if case['fam'] == 'CT' else 7 if case['fam'] == 'M3' else 12


def judge(res, r, prms, sub, monotone_map=None):
    chunk = r.chunk
    data = chunk.data
    okta0 = pipeline.effective(prms, 'MAX_HITS_OKTA0')
    okta8 = pipeline.effective(prms, 'MAX_HOLES_OKTA8')
    meas = set(zip(data['ceilo'].tolist(), data['dt'].tolist()))
    total = len(meas)
    cl = res['clauses']

    def hit(c):
        cl[c] = cl.get(c, 0) + 1

    def viol(clause, detail, which):
        detail = dict(detail); detail['prms'] = prms; detail['which'] = which
        res['violations'].append({'clause': clause, 'site': f'metarize({which})', 'detail': detail, 'sub': sub})

    hit('C03.total')
    if chunk.max_hits_per_layer != total:
        viol('C03.total', {'max_hits_per_layer': chunk.max_hits_per_layer, 'distinct_measurements': total}, 'chunk')
    for which in pipeline.LEVELS:
        tab = getattr(chunk, which)
        idcol = which[:-1] + '_id'
        ids = data[idcol].tolist()
        for row in pipeline.table_rows(tab):
            cid = row['cluster_id']
            members = [(c, d) for c, d, i in zip(data['ceilo'].tolist(), data['dt'].tolist(), ids) if i == cid]
            n_ref = len(set(members))
            if len(members) > n_ref:
                hit('C03.multi_hit_once')
            hit('C03.n_hits')
            if row['n_hits'] != n_ref:
                viol('C03.n_hits', {'cluster_id': cid, 'n_hits': row['n_hits'], 'distinct_measurements_in_set': n_ref,
                                    'member_rows': len(members)}, which)
            hit('C03.perc')
            exp_perc = n_ref / total * 100
            if abs(row['perc'] - exp_perc) > 1e-9:
                viol('C03.perc', {'cluster_id': cid, 'perc': row['perc'], 'expected': exp_perc, 'count': n_ref, 'total': total}, which)
            acc = pipeline.accept_oktas_count(n_ref, total, okta0, okta8)
            hit('C03.okta_rule')
            if n_ref == okta0 or n_ref == okta0 + 1:
                hit('C03.okta0_edge')
            if total - n_ref == okta8 or total - n_ref == okta8 + 1:
                hit('C03.okta8_edge')
            if len(acc) == 2:
                hit('C03.tie')
            if row['okta'] not in acc:
                viol('C03.okta_rule', {'cluster_id': cid, 'okta': row['okta'], 'accepted': sorted(acc), 'count': n_ref,
                                       'total': total, 'MAX_HITS_OKTA0': okta0, 'MAX_HOLES_OKTA8': okta8}, which)
            hit('C03.code_prefix')
            want = pipeline.ABBR.get(row['okta'])
            if want is None or not str(row['code']).startswith(want):
                viol('C03.code_prefix', {'cluster_id': cid, 'okta': row['okta'], 'code': row['code']}, which)
            res['digests'].add(obj_digest([n_ref, total, row['okta'], okta0, okta8]))
            if monotone_map is not None and which == 'layers':
                monotone_map.setdefault((total, okta0, okta8), {})[n_ref] = row['okta']


def run_case(case):
    res = {'n': 0, 'clauses': {}, 'digests': set(), 'violations': [], 'crashed': 0}
    if case['fam'] == 'CT':
        total, k = case['total'], case['n_ceilos']
        mono = {}
        for (o0, o8) in BUFS:
            prms = {'MAX_HITS_OKTA0': o0, 'MAX_HOLES_OKTA8': o8}
            for count in range(0, total + 1):
                rows = scenes.count_scene(count, total, 1000.0, k)
                r = pipeline.run(rows, prms, msgs=False)
                res['n'] += 1
                if not r.ok:
                    res['crashed'] += 1
                    continue
                judge(res, r, prms, case, mono)
        for key, m in mono.items():
            cs = sorted(m)
            res['clauses']['C03.okta_monotone'] = res['clauses'].get('C03.okta_monotone', 0) + max(len(cs) - 1, 0)
            for a, b in zip(cs, cs[1:]):
                if m[b] < m[a]:
                    res['violations'].append({'clause': 'C03.okta_monotone', 'site': 'metarize(layers)',
                                              'detail': {'total': key[0], 'MAX_HITS_OKTA0': key[1], 'MAX_HOLES_OKTA8': key[2],
                                                         'count': [a, b], 'okta': [m[a], m[b]]}, 'sub': case})
        res['sample'] = {'fam': 'CT', 'total': total, 'n_ceilos': k, 'runs': res['n']}
    elif case['fam'] == 'B':
        rows = scenes.build(case['scene'])
        for prms in ({}, {'MIN_SEP_VALS': [500, 1000]}, {'MAX_HITS_OKTA0': 0, 'MAX_HOLES_OKTA8': 2, 'MIN_SEP_VALS': [100, 1000]}):
            r = pipeline.run(rows, prms, msgs=False)
            res['n'] += 1
            if not r.ok:
                res['crashed'] += 1
                continue
            if r.chunk.n_slices > r.chunk.n_groups:
                res['clauses']['C03.merged_group'] = res['clauses'].get('C03.merged_group', 0) + 1
            st, gt = pipeline.table_rows(r.chunk.slices), pipeline.table_rows(r.chunk.groups)
            if [x['cluster_id'] for x in st] == [x['cluster_id'] for x in gt] and [x['n_hits'] for x in st] != [x['n_hits'] for x in gt]:
                res['clauses']['C03.regrouped'] = res['clauses'].get('C03.regrouped', 0) + 1
            judge(res, r, prms, case)
        res['sample'] = {'fam': 'B', 'scene': case['name']}
    else:
        C, T = case['shape']
        # stamp layouts: coincident stamps, offset stamps, and POSITIVE stamps with numeric-looking names chosen such that the plain
        # concatenation name + str(dt) collides ('1'+'11.0' == '11'+'1.0'): a (ceilo, dt) pair is a pair, not a string
        for offset, names, dts_override in ((0.0, ('a', 'b'), None), (5.0, ('a', 'b'), None), (0.0, ('1', '11'), [11.0, 1.0, 21.0][:T])):
            dts = dts_override or scenes.stamps(T)
            rows = []
            kk = 0
            for c in range(C):
                for t in range(T):
                    e = M3_MENU[case['cells'][kk]]; kk += 1
                    if e is None:
                        continue
                    for (h, typ) in e:
                        dt = dts[t] - (offset if c == 1 else 0.0)
                        if dts_override and c == 1:
                            dt = {11.0: 1.0, 1.0: 11.0, 21.0: 2.0}[dts[t]]      # '11' gets 1.0 where '1' has 11.0, and vice versa
                        rows.append([names[c], dt, h, typ])
            layout = 0 if (offset == 0.0 and not dts_override) else (1 if not dts_override else 2)
            for pi, prms in enumerate(({'MAX_HITS_OKTA0': 0, 'MAX_HOLES_OKTA8': 0}, {'MAX_HITS_OKTA0': 1, 'MAX_HOLES_OKTA8': 0},
                         # the base-height exclusion list must not change any count
                         {'MAX_HITS_OKTA0': 0, 'MAX_HOLES_OKTA8': 1, 'EXCLUDE_FOR_BASE_HEIGHT_CALC': ['b']},
                         # an MSA between the two decks: second hits above it are dropped (index gaps), first hits become non-detections
                         {'MAX_HITS_OKTA0': 0, 'MAX_HOLES_OKTA8': 0, 'MSA': 2000.0, 'MSA_HIT_BUFFER': 0.0})):
                if (layout == 1 and pi >= 2) or (layout == 2 and pi >= 1):
                    continue        # the exclusion / MSA runs only on the coincident layout, the colliding-name layout only once
                r = pipeline.run(rows, prms, msgs=False)
                res['n'] += 1
                if not r.ok:
                    res['crashed'] += 1
                    continue
                judge(res, r, prms, case)
        res['sample'] = {'fam': 'M3', 'cells': case['cells']}
    res['digests'] = sorted(res['digests'])
    return res
