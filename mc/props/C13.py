"""C13 - concurrent or interleaved chunks with per-call parameters do not interfere.

E4: (a) STAGE level - every interleaving of the stage sequences (construct, find_slices, find_groups,
find_layers, metar_msg) of two chunks (all 252, unmerged) and an explicit-state search over the
program-counter vectors of three chunks; (b) PRE-EMPTION level - every schedule of two run() bodies with
exactly one pre-emption, at every call/return point (thorough: every source line) inside ampycloud code:
thread X is stopped at its k-th point, thread Y runs to completion, X resumes. The bound-1 schedules
are executed with a sys.settrace scheduler that runs Y's body inside X's trace callback (one OS thread,
fully deterministic); the very same schedules are replayed with REAL threads under a semaphore baton for
a spread of k (cross-validation: identical results required), and bound-0 (both serial orders) and - in
the thorough tier - bound-2 schedules at call depth <= 2 run on real threads.
(c) CONFLICT-DIRECTED level - each chunk is first traced alone at source-line granularity with a digest of the process-global mutable
state taken at every point (NumPy's and Python's global random generators, every mutable container bound at module level or as a class
attribute inside the ampycloud package, cache sizes of memoised functions). The points at which that digest has just changed (W) are the only
places where a switch can let the other thread see, or overwrite, a half-done update. ALL bound-1 schedules (X stopped at w in W_X, Y runs
to completion) and ALL bound-2 schedules (X stopped at w1 in W_X, Y runs up to w2 in W_Y, X finishes, Y finishes) over these points are
executed for every pair and both orders - a partial-order reduction: with no write to shared state there is nothing to order.
Oracle: every chunk's result digest equals the digest obtained by processing it alone.
"""
import copy
import itertools
import sys
import threading
import warnings

from . import _deckfam
from .. import scenes, env
from ..digest import result_digest, chunk_state_digest, obj_digest

TITLE = 'concurrent / interleaved chunks do not interfere'
EXPLORER = 'E4'
CLAUSES = ['C13.stage_interleaving', 'C13.stage3_graph', 'C13.thread_b0', 'C13.thread_b1', 'C13.real_threads_agree',
           'C13.preempt_inside_metarize', 'C13.preempt_inside_layering', 'C13.conflict_scan']
RULE = ('chunk pairs with different data AND different per-call parameters; STAGE2: all C(10,5)=252 interleavings per pair; STAGE3: BFS over '
        'the 6^3 program-counter vectors of three chunks, states merged only if every chunk equals its isolated reference at that pc; PREEMPT: for '
        'each pair and each order, one execution per scheduling point k (call/return events in ampycloud frames; thorough: + line events); THREADS: '
        'bound-0 and a spread of bound-1 schedules on real threads under a baton scheduler (thorough: bound-2 at call depth <= 2); CONFLICT: every '
        'pair x both orders, all bound-1 and bound-2 schedules over the points where the process-global state digest changes (line granularity). '
        'states = distinct (pc vector | schedule) explored, transitions = stage calls / pre-empted executions, traces_validated = schedules replayed on real threads')
ASSUMPTIONS = ['the conflict-directed reduction sees shared state held in NumPy\'s / Python\'s global random generators, in mutable containers bound at '
               'module level or as class attributes inside the ampycloud package, and in memoised functions there; state parked elsewhere (closures, '
               'third-party module globals) is only reached by the unreduced bound-1 line-level sweep',
               'pre-emption is modelled at Python source-line / call / return granularity inside ampycloud frames; switches inside numpy / pandas / '
               'scikit-learn C code and C-level parallelism are not modelled', 'the emulated pre-emption (Y runs inside X\'s trace callback) equals a real '
               'thread switch as long as ampycloud holds no thread-local state; cross-validated on real threads']

SRC = env.REPO_SRC + '/ampycloud'
STAGES = ['construct', 'find_slices', 'find_groups', 'find_layers', 'metar_msg']


def chunk_specs():
    D = _deckfam.D
    return {
        # A: a borderline deck that the mixture step splits under the AIC score but not under the (default) BIC score (scenes.WAIC)
        'A': ({'gen': 'lcgbimodal', 'args': list(scenes.WAIC[0])}, None),
        'B': (D({'h': 1000., 'n': 60, 'pattern': 'modes:125:125'}, {'h': 5000., 'n': 7, 'where': 'spread'}, T=60),
              {'MIN_SEP_VALS': [100, 1000], 'MAX_HITS_OKTA0': 0, 'BASE_LVL_HEIGHT_PERC': 50, 'GROUPING_PRMS': {'height_pad_perc': 100},
               'SLICING_PRMS': {'distance_threshold': 0.1}, 'LAYERING_PRMS': {'min_okta_to_split': 1, 'gmm_kwargs': {'scores': 'AIC'}},
               'LOWESS': {'frac': 0.9}}),
        'C': (D({'h': 1000., 'n': 40}, {'h': 1240., 'n': 40}, ceilos=['a', 'b'], ceilo_offsets=[0., 20.]),
              {'MSA': 1200, 'MSA_HIT_BUFFER': 100, 'BASE_LVL_LOOKBACK_PERC': 50, 'EXCLUDE_FOR_BASE_HEIGHT_CALC': ['b']}),
        'D': ({'gen': 'count', 'count': 50, 'total': 120, 'height': 1100., 'n_ceilos': 1}, {'MAX_HOLES_OKTA8': 5, 'LOWESS': {'frac': 0.9}}),
        'E': ({'gen': 'lcgdeck', 'args': list(scenes.W119[1])}, {'LAYERING_PRMS': {'gmm_kwargs': {'scores': 'AIC', 'delta_mul_gain': 1.0}}, 'MIN_SEP_VALS': [2000, 2000]}),
        # same data as A, parameters differing only in leaves a memo keyed by data-derived values would confuse
        'G': ({'gen': 'lcgbimodal', 'args': list(scenes.WAIC[0])}, {'MIN_SEP_VALS': [100, 1000], 'MAX_HOLES_OKTA8': 40, 'LAYERING_PRMS': {'gmm_kwargs': {'scores': 'AIC'}}}),
        # H / I: the same three-mode deck; with the default separations (250) everything re-merges, with 100 three layers survive
        'H': (D({'h': 1000., 'n': 60, 'pattern': 'modes:125:125'}, T=60), None),
        'I': (D({'h': 1000., 'n': 60, 'pattern': 'modes:125:125'}, T=60), {'MIN_SEP_VALS': [100, 1000]}),
        'F': (D({'h': 1000., 'n': 40, 'pattern': 'rampup'}, {'h': 1210., 'n': 40, 'pattern': 'rampup'}, {'h': 9000., 'n': 12, 'where': 'first'}),
              {'MSA': 3000, 'MSA_HIT_BUFFER': 0, 'SLICING_PRMS': {'distance_threshold': 0.1}}),
    }


PAIRS = [('A', 'B'), ('A', 'G'), ('H', 'I'), ('C', 'D'), ('E', 'F'), ('B', 'D')]
TRIPLES = [('A', 'B', 'C')]


def bound(tier):
    return ('stage: 252 interleavings x 3 pairs + 3-chunk graph; pre-emption bound 1 on pair (A,B): A stopped at EVERY source line/call/return inside ampycloud, B at every 2nd call/return; real threads: bound 0 + ~26 bound-1 schedules for 2 pairs'
            if tier == 'quick' else
            'stage: 252 interleavings x %d pairs + 3-chunk graph; pre-emption bound 1 at every line/call/return point, %d pairs x 2 orders; real threads: bound 0, bound 1 spread, bound 2 at call depth <= 2'
            % (len(PAIRS), len(PAIRS)))


def cases(tier):
    out = []
    for p in (PAIRS[:3] if tier == 'quick' else PAIRS):
        for part in range(4):
            out.append({'kind': 'stage2', 'pair': list(p), 'part': part, 'nparts': 4})
    for t in TRIPLES:
        out.append({'kind': 'stage3', 'triple': list(t)})
    gran = 'call' if tier == 'quick' else 'line'
    pairs = PAIRS[:1] if tier == 'quick' else PAIRS
    for pi, p in enumerate(pairs):
        for order in (0, 1):
            x = p[order]
            # quick: the first chunk is stopped at EVERY source line / call / return, the second at every 2nd call / return
            g = 'line' if (tier != 'quick' or order == 0) else 'call'
            events = ('call', 'return') if g == 'call' else ('call', 'return', 'line')
            npts = isolated(lambda: len(count_points(body(x), events)[0]))     # (the parent process itself never executes ampycloud code)
            stride = 2 if (tier == 'quick' and order == 1) else 1
            ks = list(range(0, npts, stride))
            nparts = max(1, len(ks) // 40)
            for part in range(nparts):
                out.append({'kind': 'preempt', 'pair': list(p), 'order': order, 'gran': g, 'part': part, 'nparts': nparts, 'stride': stride,
                            'npoints': npts})
        for part in range(6):
            out.append({'kind': 'threads', 'pair': list(p), 'gran': 'call', 'bound2': tier != 'quick', 'part': part, 'nparts': 6})
    if tier == 'quick':
        for part in range(6):
            out.append({'kind': 'threads', 'pair': list(PAIRS[1]), 'gran': 'call', 'bound2': False, 'part': part, 'nparts': 6})
    for p in PAIRS:
        for order in (0, 1):
            out.append({'kind': 'conflict', 'pair': list(p), 'order': order})
    return out


def weight(case):
    return {'stage2': 10, 'stage3': 40, 'preempt': 30, 'threads': 35, 'conflict': 20}[case['kind']]


# ---------------------------------------------------------------------------------------------------
def make(name):
    spec, prms = chunk_specs()[name]
    return scenes.frame(scenes.build(spec)), prms


def body(name):
    import ampycloud
    fr, prms = make(name)

    def run():
        with warnings.catch_warnings():
            warnings.simplefilter('ignore')
            return result_digest(ampycloud.run(fr, prms=copy.deepcopy(prms)))
    return run


class StageProc:
    """One chunk advanced stage by stage."""

    def __init__(self, name):
        self.name = name
        self.fr, self.prms = make(name)
        self.chunk = None
        self.pc = 0
        self.msg = None

    def step(self):
        from ampycloud.data import CeiloChunk
        with warnings.catch_warnings():
            warnings.simplefilter('ignore')
            st = STAGES[self.pc]
            if st == 'construct':
                self.chunk = CeiloChunk(self.fr, prms=copy.deepcopy(self.prms))
            elif st == 'metar_msg':
                self.msg = [self.chunk.metar_msg(w) for w in ('slices', 'groups', 'layers')]
            else:
                getattr(self.chunk, st)()
        self.pc += 1

    def digest(self):
        return obj_digest([self.pc, None if self.chunk is None else chunk_state_digest(self.chunk), self.msg])


def isolated_stage_refs(name):
    p = StageProc(name)
    refs = [p.digest()]
    while p.pc < len(STAGES):
        p.step()
        refs.append(p.digest())
    return refs


def isolated(fn):
    """Runs fn() ALONE in a fresh fork of this (still pristine) process and returns its picklable result."""
    import os
    import pickle
    r, w = os.pipe()
    pid = os.fork()
    if pid == 0:
        try:
            try:
                out = ('ok', fn())
            except BaseException as e:      # noqa
                out = ('err', repr(e))
            os.close(r)
            with os.fdopen(w, 'wb') as f:
                f.write(pickle.dumps(out))
        finally:
            os._exit(0)
    os.close(w)
    with os.fdopen(r, 'rb') as f:
        data = f.read()
    os.waitpid(pid, 0)
    kind, val = pickle.loads(data)
    if kind == 'err':
        raise RuntimeError('isolated reference run failed: ' + val)
    return val


def is_ampy(code):
    return code.co_filename.startswith(SRC)


def count_points(run, events, maxdepth=None):
    pts = []
    depth = [0]

    def tr(frame, event, arg):
        if not is_ampy(frame.f_code):
            return None
        if event == 'call':
            depth[0] += 1
        if event in events and (maxdepth is None or depth[0] <= maxdepth):
            pts.append((frame.f_code.co_name, frame.f_lineno, event))
        if event == 'return':
            depth[0] -= 1
        return tr
    sys.settrace(tr)
    try:
        r = run()
    finally:
        sys.settrace(None)
    return pts, r


def global_state_items():
    """{name: digest} of the process-global mutable state two chunks could share (see ASSUMPTIONS)."""
    import collections
    import hashlib
    import pickle
    import random
    import numpy as np
    out = {}

    def dg(v):
        try:
            b = pickle.dumps(v, protocol=4)
        except Exception:       # noqa
            b = repr(v).encode()
        return hashlib.sha1(b).hexdigest()[:12]

    st = np.random.get_state()
    out['numpy.random global state'] = hashlib.sha1(st[1].tobytes() + repr(st[2:]).encode()).hexdigest()[:12]
    out['random global state'] = dg(random.getstate())

    def feed(prefix, k, v):
        if isinstance(v, (dict, list, set, bytearray, collections.deque)):
            out[f'{prefix}.{k}'] = dg(v)
        elif isinstance(v, np.ndarray):
            out[f'{prefix}.{k}'] = hashlib.sha1(v.tobytes()).hexdigest()[:12]
        elif callable(v) and hasattr(v, 'cache_info'):
            out[f'{prefix}.{k} (memo size)'] = str(v.cache_info().currsize)
    for name, m in list(sys.modules.items()):
        if m is None or not (name == 'ampycloud' or name.startswith('ampycloud.')):
            continue
        for k, v in list(vars(m).items()):
            if k.startswith('__'):
                continue
            feed(name, k, v)
            if isinstance(v, type) and str(getattr(v, '__module__', '')).startswith('ampycloud') and v.__module__ == name:
                for ak, av in list(vars(v).items()):
                    if not ak.startswith('__'):
                        feed(f'{name}.{k}', ak, av)
    return out


def conflict_scan(run, events=('call', 'return', 'line')):
    """Runs `run` alone under tracing; returns (number of points, [(k, where, [names that changed])] for every point k at which the
    global-state digest differs from the one at point k-1, result)."""
    st = {'n': 0, 'prev': None, 'w': []}

    def tr(frame, event, arg):
        if not is_ampy(frame.f_code):
            return None
        if event in events:
            cur = global_state_items()
            if st['prev'] is not None and cur != st['prev']:
                changed = sorted(k for k in set(cur) | set(st['prev']) if cur.get(k) != st['prev'].get(k))
                st['w'].append((st['n'], '%s:%s:%s' % (frame.f_code.co_name, frame.f_lineno, event), changed))
            st['prev'] = cur
            st['n'] += 1
        return tr
    sys.settrace(tr)
    try:
        r = run()
    finally:
        sys.settrace(None)
    return st['n'], st['w'], r


def preempt_emulated(runX, runY, k, events):
    st = {'n': 0, 'fired': False, 'ry': None, 'where': None}

    def tr(frame, event, arg):
        if not is_ampy(frame.f_code):
            return None
        if event in events:
            if st['n'] == k and not st['fired']:
                st['fired'] = True
                st['where'] = (frame.f_code.co_name, frame.f_lineno, event)
                st['ry'] = runY()          # tracing is off inside a trace callback: Y runs undisturbed, on X's stack
            st['n'] += 1
        return tr
    sys.settrace(tr)
    try:
        rx = runX()
    finally:
        sys.settrace(None)
    return rx, st['ry'], st['where']


class Baton:
    """Real threads, exactly one runnable at a time; switches only where the schedule says."""

    def __init__(self, runs, yields, events, maxdepth=None):
        self.runs = runs                                  # {name: callable}
        self.yields = {n: set(v) for n, v in yields.items()}   # {name: point counters at which it yields}
        self.events = events
        self.maxdepth = maxdepth
        self.sems = {n: threading.Semaphore(0) for n in runs}
        self.done = {n: False for n in runs}
        self.results = {}
        self.errors = {}
        self.names = list(runs)

    def other(self, n):
        return self.names[1 - self.names.index(n)]

    def thread_main(self, n):
        self.sems[n].acquire()
        cnt = [0]
        depth = [0]

        def tr(frame, event, arg):
            if not is_ampy(frame.f_code):
                return None
            if event == 'call':
                depth[0] += 1
            if event in self.events and (self.maxdepth is None or depth[0] <= self.maxdepth):
                if cnt[0] in self.yields[n] and not self.done[self.other(n)]:
                    self.sems[self.other(n)].release()
                    self.sems[n].acquire()
                cnt[0] += 1
            if event == 'return':
                depth[0] -= 1
            return tr
        sys.settrace(tr)
        try:
            self.results[n] = self.runs[n]()
        except BaseException as e:      # noqa
            self.errors[n] = repr(e)
        finally:
            sys.settrace(None)
            self.done[n] = True
            self.sems[self.other(n)].release()

    def go(self, first):
        ths = [threading.Thread(target=self.thread_main, args=(n,), daemon=True) for n in self.names]
        for t in ths:
            t.start()
        self.sems[first].release()
        for t in ths:
            t.join(120)
        if any(t.is_alive() for t in ths):
            raise RuntimeError('HARNESS: baton scheduler dead-locked / timed out')
        return self.results, self.errors


def run_case(case):
    res = {'n': 0, 'clauses': {}, 'digests': set(), 'violations': [], 'extra': {'states': 0, 'transitions': 0, 'traces': 0}}
    cl = res['clauses']

    def hit(c, k=1):
        cl[c] = cl.get(c, 0) + k

    def viol(clause, detail, sub=None):
        if len(res['violations']) < 25:
            res['violations'].append({'clause': clause, 'site': detail.get('where', 'stage'), 'detail': detail, 'sub': sub or case})

    kind = case['kind']
    if kind == 'stage2':
        x, y = case['pair']
        refs = {n: isolated(lambda n=n: isolated_stage_refs(n)) for n in (x, y)}     # each chunk truly alone, in its own process
        combos = list(itertools.combinations(range(10), 5))
        combos = combos[case['part']::case['nparts']]
        def one(sched):
            procs = {x: StageProc(x), y: StageProc(y)}
            for i, who in enumerate(sched):
                procs[who].step()
                if procs[who].digest() != refs[who][procs[who].pc]:
                    return (i + 1, who, STAGES[procs[who].pc - 1], procs[who].msg)
            return (len(sched), None, None, None)

        for pos in combos:
            sched = [x if i in pos else y for i in range(10)]
            nsteps, who, stage, msg = one(sched)
            res['extra']['transitions'] += nsteps
            if who is not None:
                viol('C13.stage_interleaving', {'schedule': ''.join(sched), 'chunk': who, 'after_stage': stage,
                                                'what': 'chunk state differs from the state reached when processed alone', 'msg': msg},
                     # replay = the same sequence of interleavings of this case, truncated here (keeps any state a defect parks in the process)
                     {**{k: v for k, v in case.items() if k != 'stop_at'}, 'stop_at': list(pos)})
            if case.get('stop_at') == list(pos):
                break
            res['n'] += 1
            hit('C13.stage_interleaving')
            res['extra']['states'] += 1
            res['digests'].add(''.join(sched))
        res['sample'] = {'kind': kind, 'pair': case['pair'], 'interleavings': len(combos)}
    elif kind == 'stage3':
        names = case['triple']
        refs = {n: isolated(lambda n=n: isolated_stage_refs(n)) for n in names}
        start = tuple(0 for _ in names)
        # state = pc vector (+ a tag when some chunk is off its isolated reference: then kept distinct and reported)
        init = {n: StageProc(n) for n in names}
        seen = {start}
        frontier = [(start, init, [])]
        while frontier:
            nxt = []
            for pcs, procs, hist in frontier:
                for i, n in enumerate(names):
                    if pcs[i] >= len(STAGES):
                        continue
                    p2 = copy.deepcopy(procs)
                    p2[n].step()
                    res['extra']['transitions'] += 1
                    res['n'] += 1
                    hit('C13.stage3_graph')
                    good = all(p2[m].digest() == refs[m][p2[m].pc] for m in names)
                    pcs2 = tuple(p2[m].pc for m in names)
                    if not good:
                        bad = [m for m in names if p2[m].digest() != refs[m][p2[m].pc]]
                        viol('C13.stage_interleaving', {'history': hist + [n], 'chunks_off_reference': bad, 'pcs': list(pcs2)})
                        continue
                    if pcs2 not in seen:
                        seen.add(pcs2)
                        nxt.append((pcs2, p2, hist + [n]))
            frontier = nxt
        res['extra']['states'] = len(seen)
        res['digests'] = {str(s) for s in seen}
        res['closed'] = True
        res['sample'] = {'kind': kind, 'triple': names, 'states': len(seen), 'transitions': res['extra']['transitions']}
    elif kind == 'preempt':
        x, y = case['pair'] if case['order'] == 0 else case['pair'][::-1]
        events = ('call', 'return') if case['gran'] == 'call' else ('call', 'return', 'line')
        runX, runY = body(x), body(y)
        pts, refX = isolated(lambda: count_points(runX, events))
        refY = isolated(runY)
        if len(pts) != case.get('npoints', len(pts)):
            res['harness_error'] = f'number of scheduling points changed between enumeration and execution ({case.get("npoints")} -> {len(pts)})'
        ks = list(range(0, len(pts), case.get('stride', 1)))[case['part']::case['nparts']]
        if 'stop_at' in case:
            ks = ks[:ks.index(case['stop_at']) + 1]
        for k in ks:
            rx, ry, where = preempt_emulated(runX, runY, k, events)
            res['n'] += 1
            res['extra']['transitions'] += 1
            res['extra']['states'] += 1
            hit('C13.thread_b1')
            if where and where[0] in ('_calculate_cloud_amount', 'metarize', '_calculate_sligrolay_base_height', '_add_sligrolay_information'):
                hit('C13.preempt_inside_metarize')
            if where and where[0] in ('find_layers', 'ncomp_from_gmm', 'best_gmm', '_merge_close_groups', '_get_min_sep_for_height'):
                hit('C13.preempt_inside_layering')
            if rx != refX or ry != refY:
                viol('C13.thread_b1', {'preempted': x, 'at_point': k, 'where': '%s:%s:%s' % where if where else None, 'ran_meanwhile': y,
                                       'differs': [n for n, a, b in ((x, rx, refX), (y, ry, refY)) if a != b]},
                     {**{kk: v for kk, v in case.items() if kk != 'stop_at'}, 'stop_at': k})
        res['digests'] = {f'{x}{y}{k}' for k in ks[:50]}
        res['sample'] = {'kind': kind, 'first': x, 'second': y, 'points_total': len(pts), 'executed_k': len(ks), 'granularity': case['gran'],
                         'example_points': ['%s:%s:%s' % p for p in pts[:3]]}
    elif kind == 'conflict':
        x, y = case['pair'] if case['order'] == 0 else case['pair'][::-1]
        events = ('call', 'return', 'line')
        runs = {x: body(x), y: body(y)}
        nX, wX, refX = isolated(lambda: conflict_scan(runs[x]))
        nY, wY, refY = isolated(lambda: conflict_scan(runs[y]))
        ref = {x: refX, y: refY}
        hit('C13.conflict_scan', nX + nY)
        CAP = 60
        res['notes'] = [f'{x}: {nX} points, {len(wX)} follow a change of the process-global state; {y}: {nY} points, {len(wY)}']
        if len(wX) > CAP or len(wY) > CAP:
            res['notes'].append(f'CAP: only the first {CAP} write points of each chunk were scheduled')
        wX, wY = wX[:CAP], wY[:CAP]
        scheds = [(k1, None) for k1, _, _ in wX] + [(k1, k2) for k1, _, _ in wX for k2, _, _ in wY]
        if 'stop_at' in case:
            scheds = scheds[:scheds.index(tuple(case['stop_at'])) + 1]
        names = {k: (w, ch) for k, w, ch in wX}
        namesY = {k: (w, ch) for k, w, ch in wY}
        for (k1, k2) in scheds:
            out, err = isolated(lambda: Baton(runs, {x: [k1], y: ([] if k2 is None else [k2])}, events).go(x))
            res['n'] += 1
            res['extra']['traces'] += 1
            res['extra']['transitions'] += 1
            hit('C13.thread_b1' if k2 is None else 'C13.thread_b2_conflict')
            if err or out != ref:
                viol('C13.thread_b1', {'real_threads': True, 'bound': 1 if k2 is None else 2, 'first_thread': x, 'stopped_at': names[k1][0],
                                       'shared_state_just_written': names[k1][1], 'second_thread': y,
                                       'second_stopped_at': None if k2 is None else namesY[k2][0],
                                       'second_just_wrote': None if k2 is None else namesY[k2][1], 'errors': err,
                                       'differs': [n for n in ref if out.get(n) != ref[n]], 'where': names[k1][0]},
                     {**{kk: v for kk, v in case.items() if kk != 'stop_at'}, 'stop_at': [k1, k2]})
                break
        res['extra']['states'] = res['extra']['traces']
        res['digests'] = {f'conflict{x}{y}{len(wX)}x{len(wY)}'}
        res['sample'] = {'kind': kind, 'first': x, 'second': y, 'points': [nX, nY],
                         'write_points': [[k, w, ch] for k, w, ch in wX[:6]], 'schedules': len(scheds)}
    else:   # real threads
        x, y = case['pair']
        events = ('call', 'return')
        runs = {x: body(x), y: body(y)}
        ref = {x: isolated(runs[x]), y: isolated(runs[y])}
        ptsX, _ = isolated(lambda: count_points(runs[x], events))
        ptsY, _ = isolated(lambda: count_points(runs[y], events))
        # bound 0: both serial orders on real threads
        for first in ((x, y) if case.get('part', 0) == 0 else ()):
            out, err = isolated(lambda: Baton(runs, {x: [], y: []}, events).go(first))
            res['n'] += 1
            res['extra']['traces'] += 1
            hit('C13.thread_b0')
            if err or out != ref:
                viol('C13.thread_b0', {'first': first, 'errors': err, 'differs': [n for n in ref if out.get(n) != ref[n]]})
        # bound 1 on real threads for a spread of k, compared with the emulation
        for (a, b, pts) in ((x, y, ptsX), (y, x, ptsY)):
            for k in list(range(0, len(pts), max(1, len(pts) // 12)))[case.get('part', 0)::case.get('nparts', 1)]:
                out, err = isolated(lambda: Baton(runs, {a: [k], b: []}, events).go(a))
                emu = isolated(lambda: preempt_emulated(runs[a], runs[b], k, events))
                res['n'] += 2
                res['extra']['traces'] += 1
                hit('C13.real_threads_agree')
                if err or out.get(a) != emu[0] or out.get(b) != emu[1]:
                    res['harness_error'] = f'real-thread schedule and emulated pre-emption disagree at k={k} ({a} pre-empted): {err}'
                if not err and (out[a] != ref[a] or out[b] != ref[b]):
                    viol('C13.thread_b1', {'real_threads': True, 'preempted': a, 'at_point': k, 'where': '%s:%s:%s' % pts[k],
                                           'differs': [n for n in ref if out.get(n) != ref[n]]})
        if case.get('bound2'):
            pX, _ = isolated(lambda: count_points(runs[x], events, maxdepth=2))
            pY, _ = isolated(lambda: count_points(runs[y], events, maxdepth=2))
            for k1 in list(range(0, len(pX), max(1, len(pX) // 16)))[case.get('part', 0)::case.get('nparts', 1)]:
                for k2 in range(0, len(pY), max(1, len(pY) // 16)):
                    out, err = isolated(lambda: Baton(runs, {x: [k1], y: [k2]}, events, maxdepth=2).go(x))
                    res['n'] += 1
                    res['extra']['traces'] += 1
                    hit('C13.thread_b1')
                    if err or out != ref:
                        viol('C13.thread_b1', {'real_threads': True, 'bound': 2, 'k1': k1, 'k2': k2, 'errors': err,
                                               'differs': [n for n in ref if out.get(n) != ref[n]]})
        res['extra']['states'] = res['extra']['traces']
        res['digests'] = {f'threads{x}{y}'}
        res['sample'] = {'kind': kind, 'pair': case['pair'], 'points': [len(ptsX), len(ptsY)], 'real_thread_schedules': res['extra']['traces']}
    res['digests'] = sorted(res['digests'])
    return res
