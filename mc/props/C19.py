"""C19 - scalings are order-preserving, invertible and blind to non-detections.

E1: one case = one scaling configuration; the worker feeds EVERY array of length 1..L over a
boundary alphabet (NaN, negatives, 0, both float neighbours of every step edge, 1e5) to the real
``scaler.apply_scaling`` (+ ``convert_kwargs`` / ``plots.tools.get_scaling_kwargs`` for do/undo).
"""
import itertools
import math

TITLE = 'Scalings are order-preserving, invertible and NaN-blind'
EXPLORER = 'E1'
CLAUSES = ['C19.monotone', 'C19.roundtrip', 'C19.minmax_unit', 'C19.min_range', 'C19.step_continuous',
           'C19.nan_blind', 'C19.all_nan', 'C19.reference', 'C19.data_rescaled', 'C19.series_index', 'C19.history_free']
RULE = ('one case per scaling configuration (shift-and-scale: scale x shift; minmax-scale: min_range; '
        'step-scale: every strictly increasing step list of length 0..4 over {1000,8000,14000,20000} x '
        'every scale tuple over {1,100,500}); inside it every array of length 1..L over the value '
        'alphabet; an execution is one apply_scaling call; distinct_nontrivial = distinct digests of '
        '(configuration class, output array) for arrays with >= 2 finite distinct values')
ASSUMPTIONS = ['do/undo round trip compared with relative tolerance 1e-9 (abs 1e-6)',
               'min-max configurations whose span would be below 1e-6 are outside the property (excluded)']

STEP_POOL = [1000., 8000., 14000., 20000.]
SCALE_POOL = [1., 100., 500.]


def alphabet():
    import numpy as np
    vals = [float('nan'), -500., 0., 250.]
    for s in STEP_POOL:
        vals += [float(np.nextafter(s, -np.inf)), s]
    vals += [9000., 1e5]
    return vals


def bound(tier):
    L = 3 if tier == 'quick' else 4
    return f'arrays of length 1..{L} (step-scale: 1..{L-1}; its parameters do not depend on the data) over a {len(alphabet())}-value alphabet x 12 shift-and-scale + 5 min-max + 768 step-scale configurations'


def cases(tier):
    L = 3 if tier == 'quick' else 4
    out = []
    for scale in (0.5, 1., 180., 1e5):
        for shift in (None, 0., 1000.):
            out.append({'mode': 'shift-and-scale', 'kwargs': {'scale': scale, **({} if shift is None else {'shift': shift})}, 'L': L})
    for mr in (0., 1e-6, 1000., 30000.):
        out.append({'mode': 'minmax-scale', 'kwargs': {'min_range': mr}, 'L': L})
    out.append({'mode': 'minmax-scale', 'kwargs': {}, 'L': L})
    for k in range(0, 5):
        for steps in itertools.combinations(STEP_POOL, k):
            for scales in itertools.product(SCALE_POOL, repeat=k + 1):
                out.append({'mode': 'step-scale', 'kwargs': {'steps': list(steps), 'scales': list(scales)}, 'L': L - 1})
    out.append({'mode': 'data_rescaled', 'kwargs': {}, 'L': L})
    # values whose spread is tiny relative to their magnitude, with a min_range below / at / above that spread
    for mr in (0.0, 0.01, 0.05, 1.0):
        out.append({'mode': 'minmax-scale', 'kwargs': {'min_range': mr}, 'L': L, 'alphabet': 'close'})
    out.append({'mode': 'series', 'kwargs': {}, 'L': L})
    # histories: every scale tuple for one step list, one after the other in ONE process (forwards, then backwards), and the
    # shift-and-scale / min-max configurations one after the other on different arrays: a scaling depends on its arguments only
    for k in range(1, 4 if tier == 'quick' else 5):
        for steps in itertools.combinations(STEP_POOL, k):
            out.append({'mode': 'history', 'kwargs': {}, 'steps': list(steps), 'L': L})
    out.append({'mode': 'history', 'kwargs': {}, 'steps': None, 'L': L})
    return out


def _close(a, b):
    return abs(a - b) <= 1e-6 + 1e-9 * max(abs(a), abs(b))


def ref_step(x, steps, scales):
    """Continuous piecewise-linear map with slope 1/scales[i] on the i-th interval, f(0)=0 when the
    first interval contains 0 (the implementation's anchoring: first interval is x/scales[0])."""
    y, prev = 0.0, 0.0
    edges = list(steps)
    # first interval: (-inf, steps[0]) anchored at origin
    if not edges or x < edges[0]:
        return x / scales[0]
    y = edges[0] / scales[0]
    for i in range(1, len(edges)):
        if x < edges[i]:
            return y + (x - edges[i - 1]) / scales[i]
        y += (edges[i] - edges[i - 1]) / scales[i]
    return y + (x - edges[-1]) / scales[-1]


def run_case(case):
    import copy
    import numpy as np
    from ampycloud import scaler
    from ampycloud.plots.tools import get_scaling_kwargs
    from ..digest import obj_digest
    mode, kwargs, L = case['mode'], case['kwargs'], case['L']
    if mode == 'data_rescaled':
        return data_rescaled_case(case)
    if mode == 'series':
        return series_case(case)
    if mode == 'history':
        return history_case(case)
    A = alphabet() if case.get('alphabet') != 'close' else [float('nan'), 9000.0, 9000.02, 9000.05, 9000.05000001, 0.5, 0.50000004]
    res = {'n': 0, 'clauses': {}, 'digests': set(), 'violations': []}
    cl = res['clauses']

    def hit(c):
        cl[c] = cl.get(c, 0) + 1

    def viol(clause, arr, detail):
        if len(res['violations']) < 12:
            sub = dict(case)
            sub['only'] = [None if (isinstance(v, float) and math.isnan(v)) else float(v).hex() for v in arr]
            res['violations'].append({'clause': clause, 'site': f'scaler.{mode}', 'detail': detail, 'sub': sub})

    def arrays():
        if 'only' in case:
            yield [float('nan') if v is None else float.fromhex(v) for v in case['only']]
            return
        for n in range(1, L + 1):
            for tup in itertools.product(A, repeat=n):
                yield list(tup)

    for lst in arrays():
        arr = np.array(lst, dtype=float)
        fin = ~np.isnan(arr)
        nfin = int(fin.sum())
        kw = copy.deepcopy(kwargs)
        if nfin == 0:
            hit('C19.all_nan')
            out = scaler.apply_scaling(arr.copy(), fct=mode, **kw)
            res['n'] += 1
            if not (isinstance(out, np.ndarray) and len(out) == len(arr) and np.all(np.isnan(out))):
                viol('C19.all_nan', lst, {'got': repr(out)})
            continue
        if mode == 'minmax-scale':
            span = max(float(np.nanmax(arr) - np.nanmin(arr)), kw.get('min_range', 0.))
            if span < 1e-6:
                res['premise_not_met'] = res.get('premise_not_met', 0) + 1
                continue
        keep = arr.copy()
        try:
            out = scaler.apply_scaling(arr, fct=mode, **kw)
            res['n'] += 1
        except Exception as e:
            viol('C19.reference', lst, {'raised': repr(e)})
            continue
        if not (isinstance(out, np.ndarray) and out.shape == arr.shape) or not np.array_equal(arr, keep, equal_nan=True) \
                or kw != kwargs:
            viol('C19.reference', lst, {'got': repr(out), 'input_mutated': not np.array_equal(arr, keep, equal_nan=True),
                                        'kwargs_mutated': kw != kwargs})
            continue
        # NaN stays NaN, finite stays finite
        hit('C19.nan_blind')
        if not np.array_equal(np.isnan(out), ~fin):
            viol('C19.nan_blind', lst, {'got': repr(out)})
            continue
        if nfin < len(arr):
            out2 = scaler.apply_scaling(arr[fin].copy(), fct=mode, **copy.deepcopy(kwargs))
            res['n'] += 1
            if out[fin].tobytes() != np.asarray(out2, dtype=float).tobytes():
                viol('C19.nan_blind', lst, {'with_nan': repr(out), 'without_nan': repr(out2)})
        xs, ys = arr[fin], out[fin]
        # order preservation
        if nfin >= 2:
            hit('C19.monotone')
            for i in range(nfin):
                for j in range(nfin):
                    if xs[i] < xs[j] and not ys[i] <= ys[j]:
                        viol('C19.monotone', lst, {'x': [float(xs[i]), float(xs[j])], 'f': [float(ys[i]), float(ys[j])]})
                    if xs[i] == xs[j] and ys[i] != ys[j]:
                        viol('C19.monotone', lst, {'equal_inputs_differ': [float(ys[i]), float(ys[j])]})
        # reference values
        hit('C19.reference')
        if mode == 'shift-and-scale':
            sh = kwargs.get('shift', float(np.nanmax(arr)))
            exp = [(x - sh) / kwargs['scale'] for x in xs]
        elif mode == 'minmax-scale':
            lo, hi = float(np.nanmin(arr)), float(np.nanmax(arr))
            mr = kwargs.get('min_range', 0.)
            if hi - lo < mr:
                mid = (hi + lo) / 2
                lo, hi = mid - mr / 2, mid + mr / 2
            exp = [(x - lo) / (hi - lo) for x in xs]
            hit('C19.minmax_unit')
            if not all(-1e-12 <= y <= 1 + 1e-12 for y in ys):
                viol('C19.minmax_unit', lst, {'got': repr(out)})
            hit('C19.min_range')
            got_span = float(ys.max() - ys.min())
            want_span = (float(xs.max() - xs.min())) / (hi - lo)
            if not _close(got_span, want_span) or got_span > 1 + 1e-12:
                viol('C19.min_range', lst, {'got_span': got_span, 'expected_span': want_span})
        else:
            exp = [ref_step(float(x), kwargs['steps'], kwargs['scales']) for x in xs]
        if not all(_close(float(a), float(b)) for a, b in zip(ys, exp)):
            viol('C19.reference', lst, {'got': [float(v) for v in ys], 'expected': [float(v) for v in exp]})
        # do / undo round trip with the deterministic kwargs derived from the ORIGINAL data
        hit('C19.roundtrip')
        try:
            do_kw, undo_kw = get_scaling_kwargs(arr.copy(), mode, copy.deepcopy(kwargs))
            fwd = scaler.apply_scaling(arr.copy(), fct=mode, **copy.deepcopy(do_kw))
            back = scaler.apply_scaling(np.array(fwd, dtype=float), fct=mode, **copy.deepcopy(undo_kw))
            res['n'] += 2
            if fwd[fin].tobytes() != ys.tobytes() and not all(_close(float(a), float(b)) for a, b in zip(fwd[fin], ys)):
                viol('C19.roundtrip', lst, {'deterministic_kwargs_give': repr(fwd), 'user_kwargs_give': repr(out)})
            if not all(_close(float(a), float(b)) for a, b in zip(back[fin], xs)) or not np.array_equal(np.isnan(back), ~fin):
                viol('C19.roundtrip', lst, {'x': [float(v) for v in xs], 'undo(do(x))': [float(v) for v in back[fin]]})
        except Exception as e:
            viol('C19.roundtrip', lst, {'raised': repr(e)})
        if len(set(xs.tolist())) >= 2:
            res['digests'].add(obj_digest([mode, [float(v) for v in ys]]))
    # continuity across each step (single-value arrays just below / at each edge)
    if mode == 'step-scale' and 'only' not in case:
        for s in kwargs['steps']:
            below = float(np.nextafter(s, -np.inf))
            a = scaler.apply_scaling(np.array([below]), fct=mode, **copy.deepcopy(kwargs))[0]
            b = scaler.apply_scaling(np.array([s]), fct=mode, **copy.deepcopy(kwargs))[0]
            c = scaler.apply_scaling(np.array([below, s, s + 1.0]), fct=mode, **copy.deepcopy(kwargs))
            res['n'] += 3
            hit('C19.step_continuous')
            if not (_close(float(a), float(b)) and a <= b and c[0] <= c[1] <= c[2] and abs(c[1] - b) == 0):
                viol('C19.step_continuous', [below, s, s + 1.0], {'f(below)': float(a), 'f(step)': float(b), 'triple': [float(v) for v in c]})
    res['digests'] = sorted(res['digests'])
    res['sample'] = {'case': case, 'executions': res['n']}
    return res


def history_case(case):
    """A sequence of apply_scaling calls in one process; every call is judged against the analytic reference, so a result that depends
    on an EARLIER call (memoised offsets, remembered shift / range) shows at the first call it corrupts. Replay = the same sequence
    truncated at that call."""
    import copy
    import numpy as np
    from ampycloud import scaler
    from ampycloud.plots.tools import get_scaling_kwargs
    res = {'n': 0, 'clauses': {'C19.history_free': 0}, 'digests': set(), 'violations': []}
    seq = []
    if case['steps'] is not None:
        steps = case['steps']
        tuples = list(itertools.product(SCALE_POOL, repeat=len(steps) + 1))
        probe = [0., 250.] + [v for st in steps for v in (float(np.nextafter(st, -np.inf)), st, st + 1.)] + [1e5]
        for scales in tuples + tuples[::-1]:
            seq.append(('step-scale', {'steps': list(steps), 'scales': list(scales)}, probe))
    else:
        arrays = ([0., 1000., 5000.], [200., 300.], [-500., 1e5, 40.], [7.], [0., 1000., 5000.])
        for rep in range(2):
            for arr in arrays:
                for scale in (0.5, 180.):
                    seq.append(('shift-and-scale', {'scale': scale}, arr))
                    seq.append(('shift-and-scale', {'scale': scale, 'shift': 1000.}, arr))
                for mr in (0., 1000., 30000.):
                    if mr > 0 or max(arr) > min(arr):
                        seq.append(('minmax-scale', {'min_range': mr}, arr))
    if 'stop_at' in case:
        seq = seq[:case['stop_at'] + 1]
    for si, (mode, kwargs, lst) in enumerate(seq):
        arr = np.array(lst, dtype=float)
        sub = {k: v for k, v in case.items() if k != 'stop_at'}
        sub['stop_at'] = si
        res['clauses']['C19.history_free'] += 1
        try:
            out = scaler.apply_scaling(arr.copy(), fct=mode, **copy.deepcopy(kwargs))
            do_kw, undo_kw = get_scaling_kwargs(arr.copy(), mode, copy.deepcopy(kwargs))
            back = scaler.apply_scaling(np.array(scaler.apply_scaling(arr.copy(), fct=mode, **copy.deepcopy(do_kw)), dtype=float),
                                        fct=mode, **copy.deepcopy(undo_kw))
            res['n'] += 3
        except Exception as e:
            res['violations'].append({'clause': 'C19.history_free', 'site': f'scaler.{mode}', 'detail': {'call': si, 'kwargs': kwargs, 'raised': repr(e)}, 'sub': sub})
            break
        if mode == 'step-scale':
            exp = [ref_step(float(x), kwargs['steps'], kwargs['scales']) for x in arr]
        elif mode == 'shift-and-scale':
            exp = [(x - kwargs.get('shift', max(lst))) / kwargs['scale'] for x in lst]
        else:
            lo, hi = min(lst), max(lst)
            if hi - lo < kwargs['min_range']:
                mid = (hi + lo) / 2
                lo, hi = mid - kwargs['min_range'] / 2, mid + kwargs['min_range'] / 2
            exp = [(x - lo) / (hi - lo) for x in lst]
        if not all(_close(float(a), float(b)) for a, b in zip(out, exp)) or not all(_close(float(a), float(b)) for a, b in zip(back, lst)):
            res['violations'].append({'clause': 'C19.history_free', 'site': f'scaler.{mode}',
                                      'detail': {'call_number': si, 'mode': mode, 'kwargs': kwargs, 'values': lst, 'got': [float(v) for v in out],
                                                 'expected': [float(v) for v in exp], 'undo(do(x))': [float(v) for v in back],
                                                 'earlier_calls': [[m, k] for m, k, _ in seq[max(0, si - 3):si]]}, 'sub': sub})
            break
        res['digests'].add('%s|%d' % (mode, si))
    res['digests'] = sorted(res['digests'])
    res['sample'] = {'case': {k: v for k, v in case.items()}, 'executions': res['n']}
    return res


def data_rescaled_case(case):
    """CeiloChunk.data_rescaled: the dt / height columns are apply_scaling of the chunk's columns (NaN heights stay NaN), every other
    column and the chunk itself are untouched."""
    import copy
    import itertools
    import warnings
    import numpy as np
    from ampycloud import scaler
    from ampycloud.data import CeiloChunk
    from .. import scenes
    from ..digest import frame_digest
    res = {'n': 0, 'clauses': {'C19.data_rescaled': 0}, 'digests': set(), 'violations': []}
    menu = [None, [(None, 0)], [(1000.0, 1)], [(1000.0, 1), (9000.0, 2)], [(14000.0, 1)]]
    modes = [('shift-and-scale', {'scale': 100}), ('minmax-scale', {'min_range': 1000}), ('minmax-scale', {}),
             ('step-scale', {'steps': [8000, 14000], 'scales': [100, 500, 1000]}), (None, {})]
    for cells in itertools.product(range(len(menu)), repeat=3):
        if all(menu[c] is None for c in cells):
            continue
        rows = scenes.micro_rows(cells, 1, 3, menu)
        with warnings.catch_warnings():
            warnings.simplefilter('ignore')
            chunk = CeiloChunk(scenes.frame(rows))
        before = frame_digest(chunk.data)
        for (hm, hk), (dm, dk) in itertools.product(modes, [('shift-and-scale', {'scale': 180}), (None, {})]):
            hv = chunk.data['height'].to_numpy(dtype=float)
            if hm == 'minmax-scale' and not np.all(np.isnan(hv)) \
                    and max(float(np.nanmax(hv) - np.nanmin(hv)), hk.get('min_range', 0)) < 1e-6:
                continue            # span below 1e-6: outside the property's domain
            try:
                out = chunk.data_rescaled(dt_mode=dm, height_mode=hm, dt_kwargs=copy.deepcopy(dk), height_kwargs=copy.deepcopy(hk))
                exp_h = scaler.apply_scaling(chunk.data['height'].copy(), hm, **copy.deepcopy(hk)) if hm else chunk.data['height']
                exp_t = scaler.apply_scaling(chunk.data['dt'].copy(), dm, **copy.deepcopy(dk)) if dm else chunk.data['dt']
                ok = (np.array_equal(np.asarray(out['height'], dtype=float), np.asarray(exp_h, dtype=float), equal_nan=True)
                      and np.array_equal(np.asarray(out['dt'], dtype=float), np.asarray(exp_t, dtype=float), equal_nan=True)
                      and list(out['ceilo']) == list(chunk.data['ceilo']) and list(out['type']) == list(chunk.data['type'])
                      and np.array_equal(np.isnan(np.asarray(out['height'], dtype=float)), np.isnan(hv))
                      and frame_digest(chunk.data) == before and out is not chunk.data)
                detail = None if ok else {'rows': rows, 'height_mode': hm, 'dt_mode': dm, 'got': out[['dt', 'height']].values.tolist()}
            except Exception as e:
                detail = {'rows': rows, 'height_mode': hm, 'dt_mode': dm, 'raised': repr(e)[:200]}
            res['n'] += 1
            res['clauses']['C19.data_rescaled'] += 1
            if detail is not None and len(res['violations']) < 10:
                res['violations'].append({'clause': 'C19.data_rescaled', 'site': 'CeiloChunk.data_rescaled', 'detail': detail})
            res['digests'].add(f'{hm}|{dm}|{len(rows)}')
    res['digests'] = sorted(res['digests'])
    res['sample'] = {'case': 'data_rescaled', 'executions': res['n']}
    return res


def series_case(case):
    """apply_scaling on pandas Series with non-default index labels (gaps, shuffled, strings) and through CeiloChunk.data_rescaled on a
    chunk whose MSA crop removed rows: values must stay on their own rows (label alignment) and equal the ndarray result."""
    import copy
    import warnings
    import numpy as np
    import pandas as pd
    from ampycloud import scaler
    from ampycloud.data import CeiloChunk
    from .. import scenes
    res = {'n': 0, 'clauses': {'C19.series_index': 0, 'C19.data_rescaled': 0}, 'digests': set(), 'violations': []}
    modes = [('shift-and-scale', {'scale': 100}), ('shift-and-scale', {'scale': 10, 'shift': 5}), ('minmax-scale', {'min_range': 1000}),
             ('step-scale', {'steps': [8000, 14000], 'scales': [100, 500, 1000]}), ('step-scale', {'steps': [], 'scales': [7]})]
    vals = [2500.0, float('nan'), 2600.0, 7000.0, 9500.0, float('nan'), 15000.0, 100.0]
    indexes = {'default': list(range(8)), 'gaps': [0, 1, 3, 4, 7, 8, 9, 12], 'reversed': list(range(8))[::-1], 'strings': list('abcdefgh'),
               'shuffled': [3, 0, 7, 1, 6, 2, 5, 4]}
    for (m, kw) in modes:
        ref = scaler.apply_scaling(np.array(vals), m, **copy.deepcopy(kw))
        for iname, idx in indexes.items():
            ser = pd.Series(vals, index=idx, name='height')
            frame = pd.DataFrame({'height': ser})
            res['n'] += 1
            res['clauses']['C19.series_index'] += 1
            try:
                out = scaler.apply_scaling(ser, m, **copy.deepcopy(kw))
                frame['scaled'] = out                      # what data_rescaled does: label-aligned assignment
                got = frame['scaled'].to_numpy(dtype=float)
                ok = np.array_equal(got, np.asarray(ref, dtype=float), equal_nan=True)
                detail = None if ok else {'mode': m, 'kwargs': kw, 'index': iname, 'got': got.tolist(), 'expected': np.asarray(ref).tolist()}
            except Exception as e:
                detail = {'mode': m, 'kwargs': kw, 'index': iname, 'raised': repr(e)[:200]}
            if detail is not None and len(res['violations']) < 10:
                res['violations'].append({'clause': 'C19.series_index', 'site': 'scaler.' + m, 'detail': detail})
            res['digests'].add(f'{m}|{iname}')
    # through the chunk: an MSA crop drops second hits above the limit -> index gaps
    rows = []
    for i in range(6):
        rows.append(['a', 0.0 - 15.0 * (5 - i), 2500.0 + 100 * i, 1])
        if i % 2 == 0:
            rows.append(['a', 0.0 - 15.0 * (5 - i), 16000.0, 2])
    rows.append(['b', 0.0, None, 0])
    with warnings.catch_warnings():
        warnings.simplefilter('ignore')
        chunk = CeiloChunk(scenes.frame(rows), prms={'MSA': 10000, 'MSA_HIT_BUFFER': 1500})
    for (m, kw) in modes:
        res['n'] += 1
        res['clauses']['C19.data_rescaled'] += 1
        out = chunk.data_rescaled(height_mode=m, height_kwargs=copy.deepcopy(kw))
        exp = scaler.apply_scaling(chunk.data['height'].to_numpy(dtype=float), m, **copy.deepcopy(kw))
        if not np.array_equal(out['height'].to_numpy(dtype=float), np.asarray(exp, dtype=float), equal_nan=True) or list(out.index) != list(chunk.data.index):
            res['violations'].append({'clause': 'C19.data_rescaled', 'site': 'CeiloChunk.data_rescaled',
                                      'detail': {'mode': m, 'index': list(map(int, chunk.data.index)), 'heights': chunk.data['height'].tolist(),
                                                 'got': out['height'].tolist(), 'expected': np.asarray(exp).tolist()}})
    res['digests'] = sorted(res['digests'])
    res['sample'] = {'case': 'series', 'executions': res['n']}
    return res
