"""C08 - valid input never crashes the chain; failures are AmpycloudError only.

E1 x E3: micro tables containing every warning-only anomaly of the input specification, extreme
heights and time spans, deck scenes, the slice-bundle family, #119 witness scenes and the reference
scenes, crossed with every parameter configuration that deviates from the defaults in at most d leaves
(quick d <= 1, thorough d <= 2), each leaf ranging over its documented-legal menu (mc/params.py).
Oracle: run() returns a CeiloChunk and metar_msg(w) a str; a frame the checker refuses raises
AmpycloudError and nothing else. The hook guard is OFF (the logging decorator is part of what must
not crash).
"""
import itertools

from . import _deckfam
from .. import params, pipeline, scenes

TITLE = 'valid input never crashes'
EXPLORER = 'E1'
CLAUSES = ['C08.no_exception', 'C08.returns_types', 'C08.refusal_is_ampycloud_error', 'C08.anomaly_input',
           'C08.single_valid_hit', 'C08.no_valid_hit', 'C08.mixture_engaged', 'C08.bundle', 'C08.global_route',
           'C08.index_relabelled']
RULE = ('M8: every 1-ceilometer x 3-stamp table over a 14-entry cell menu (3 entries the checker must refuse) with the warning-only anomalies (type 1 with NaN, '
        'type 0 with a height, type 2 without type 1, type 5, VV), heights 0 / 1 / 99999 ft, at default parameters, with '
        'sub-second and day-long stamp spacing; a representative subset + B (deck) scenes + slice-bundle family + #119 '
        'witnesses + 17 reference scenes + demo, each x all configurations with <= d deviating leaves. An execution = '
        'run() + three metar_msg() calls. distinct_nontrivial = distinct (scene, messages) outcomes of accepted frames')
ASSUMPTIONS = ['parameter menus contain only documented-legal values (mc/params.py)',
               'per-run horizon 300 s; a time-out is a HARNESS-ERROR, never a violation']

M8_MENU = [
    None,
    [(None, 0)],
    [(1000.0, 1)],
    [(None, 1)],                         # type 1 with NaN (warning only)
    [(1200.0, 0)],                       # type 0 with a height (warning only)
    [(1500.0, 2)],                       # type 2 without type 1 (warning only)
    [(1000.0, 1), (1040.0, 2), (99999.0, 5)],   # hit type > 3
    [(300.0, -1)],                       # VV
    [(0.0, 1)],
    [(1.0, 1), (99999.0, 2)],
    [(1000.0, 1), (1000.0, 2)],          # repeated identical heights in one measurement
    # entries the input checker must refuse (AmpycloudError and nothing else)
    [(None, 0), (1000.0, 1)],            # non-detection and hit in one measurement
    [(300.0, -1), (1000.0, 1)],          # VV and hit in one measurement
    [(1000.0, 1), (1000.0, 1)],          # duplicated row
]
SHORT_CONFIGS = [('default', 'call', {}), ('MSA=1500', 'call', {'MSA': 1500}), ('thr=0.05', 'call', {'SLICING_PRMS': {'distance_threshold': 0.05}}),
                 ('perc=100,lb=30', 'call', {'BASE_LVL_HEIGHT_PERC': 100, 'BASE_LVL_LOOKBACK_PERC': 30}),
                 ('min_okta=0', 'call', {'LAYERING_PRMS': {'min_okta_to_split': 0}})]
BUNDLE_BASE = {'SLICING_PRMS': {'dt_scale': 100, 'distance_threshold': 1.5}}


def bundle_scenes():
    """Two time-separated small sets + a thick slice (three recent hits 500 ft apart). Each small set is ONE hit, or several hits that are
    one and the same point of the (time, height) plane: two ceilometers at the same stamp and height, a first and a second hit of one
    measurement at the same height, or three ceilometers."""
    out = []
    hs = (920.0, 950.0, 1500.0, 2050.0, 2080.0)

    def small(kind, dt, h):
        if kind == 'one':
            return [['a', dt, h, 1]]
        if kind == 'twin':
            return [['a', dt, h, 1], ['b', dt, h, 1]]
        if kind == 'typed':
            return [['a', dt, h, 1], ['a', dt, h, 2]]
        return [['a', dt, h, 1], ['b', dt, h, 1], ['c', dt, h, 1]]
    for kind in ('one', 'twin', 'typed', 'triple'):
        for h1, h2 in itertools.product(hs, hs):
            if h1 == h2:
                continue
            rows = small(kind, -900.0, h1) + small(kind, -450.0, h2) + [['a', -20.0, 2000.0, 1], ['a', -10.0, 1500.0, 1], ['a', 0.0, 1000.0, 1]]
            out.append((f'bundle:{h1:g}:{h2:g}' + ('' if kind == 'one' else ':' + kind), {'gen': 'rows', 'rows': rows}))
    return out


def bound(tier):
    return ('deviation bound d <= 1 (%d configurations)' % (1 + len(params.deviations())) if tier == 'quick'
            else 'deviation bound d <= 2 on the representative scene set, d <= 1 elsewhere')


def m8_tables(T=3):
    for cells in itertools.product(range(len(M8_MENU)), repeat=T):
        if all(M8_MENU[c] is None for c in cells):
            continue
        yield cells


def cases(tier):
    out = []
    # (1) all M8 tables at default parameters, three stamp spacings
    for cells in m8_tables():
        out.append({'fam': 'M8', 'cells': list(cells), 'configs': 'default', 'spacings': [15.0]})
    # (2) representative scenes x deviation-bounded configurations
    d = 1 if tier == 'quick' else 2
    rep_cells = [c for i, c in enumerate(m8_tables()) if i % (61 if tier == 'quick' else 7) == 0]
    for cells in rep_cells:
        out.append({'fam': 'M8', 'cells': list(cells), 'configs': 1, 'spacings': [15.0, 0.001, 86400.0] if tier != 'quick' else [15.0]})
        if tier == 'quick':
            out.append({'fam': 'M8', 'cells': list(cells), 'configs': 'short', 'spacings': [0.001, 86400.0]})
    bsc = (_deckfam.two_deck_scenes('quick', rich=False)[::5] + _deckfam.two_ceilo_scenes('quick')[::3] + _deckfam.chain_scenes('quick')[::4]
           + _deckfam.split_scenes('quick')[::2] + _deckfam.overlap_scenes('quick')[::2] + _deckfam.degenerate_scenes('quick')
           + _deckfam.w119_scenes() + _deckfam.single_survivor_scenes() + _deckfam.disordered_scenes())
    for name, spec in bsc:
        dd = d if name.startswith(('split', 'w119', 'overlap', 'single', 'two-v')) else 1
        nparts = 12 if dd == 2 else 1
        for part in range(nparts):
            out.append({'fam': 'B', 'name': name, 'scene': spec, 'configs': dd, 'part': part, 'nparts': nparts})
    for name, spec in bundle_scenes():
        out.append({'fam': 'BUNDLE', 'name': name, 'scene': spec, 'configs': 1, 'base': BUNDLE_BASE})
    for i, name in enumerate(scenes.witness_names()):
        out.append({'fam': 'W', 'name': name, 'scene': {'gen': 'witness', 'name': name},
                    'configs': 1 if (tier != 'quick' or i % 3 == 0) else 'short'})
    out.append({'fam': 'W', 'name': 'demo', 'scene': {'gen': 'demo'}, 'configs': 1})
    return out


def weight(case):
    w = {'W': 60, 'B': 6, 'BUNDLE': 4, 'M8': 1}[case['fam']]
    if case['configs'] == 2:
        w *= 4
    elif case['configs'] == 1:
        w *= 4
    elif case['configs'] == 'short':
        w *= 1
    return w


def rows_for(case, spacing=15.0):
    if case['fam'] == 'M8':
        T = len(case['cells'])
        dts = [-spacing * (T - 1 - t) for t in range(T)]
        return scenes.micro_rows(case['cells'], 1, T, M8_MENU, dts=dts)
    return scenes.build(case['scene'])


def refused_by_spec(rows):
    """The five documented refusal conditions (C15), evaluated on the rows."""
    if not rows:
        return True
    if len({tuple('nan' if v is None else v for v in r) for r in rows}) < len(rows):
        return True
    by = {}
    for c, dt, h, t in rows:
        by.setdefault((c, dt), []).append(t)
    for ts in by.values():
        if 0 in ts and any(t != 0 for t in ts):
            return True
        if -1 in ts and any(t != -1 for t in ts):
            return True
    return False


def run_case(case):
    from ampycloud.data import CeiloChunk
    from ampycloud.errors import AmpycloudError
    res = {'n': 0, 'clauses': {}, 'digests': set(), 'violations': [], 'crashed': 0}
    cl = res['clauses']

    def hit(c):
        cl[c] = cl.get(c, 0) + 1

    if case['configs'] == 'default':
        cfgs = [('default', 'call', {})]
    elif case['configs'] == 'short':
        cfgs = list(SHORT_CONFIGS)
    else:
        cfgs = list(params.configs(case['configs'], case.get('base')))
    cfgs = cfgs[case.get('part', 0)::case.get('nparts', 1)]
    if 'only_config' in case:
        cfgs = cfgs[:case['only_config'] + 1]
    for spacing in case.get('spacings', [15.0]):
        rows = rows_for(case, spacing)
        refused = refused_by_spec(rows)
        # index labels are not part of the input format: also feed the frame with non-default labels
        # (all equal, as pd.concat of one-row frames gives; reversed) at the first configuration
        idx_variants = [None]
        if 'only_config' not in case or case.get('index_variant'):
            idx_variants += ['zeros', 'reversed'] if case['fam'] != 'M8' or case['configs'] != 'default' else ['zeros']
        if case.get('index_variant'):
            idx_variants = [None, case['index_variant']]
        for iv in idx_variants[1:] if not refused else []:
            fr = scenes.frame(rows)
            fr.index = [0] * len(fr) if iv == 'zeros' else list(range(len(fr)))[::-1]
            cname, route, cfg = cfgs[0]
            r = pipeline.run(fr, cfg if (route == 'call' and cfg) else case.get('base'))
            res['n'] += 1
            hit('C08.index_relabelled')
            if not r.ok:
                res['crashed'] += 1
                res['violations'].append({'clause': 'C08.no_exception', 'site': f'{r.exc_type}@{r.site}',
                                          'detail': {'index': iv, 'config': cname, 'raised': f'{r.exc_type}: {str(r.exc)[:300]}',
                                                     'rows': rows if len(rows) <= 12 else f'{len(rows)} rows of {case.get("name")}'},
                                          'sub': {**{k: v for k, v in case.items() if k != 'only_config'}, 'only_config': 0,
                                                  'spacings': [spacing], 'index_variant': iv}})
        if case.get('index_variant'):
            continue
        for ci, (cname, route, cfg) in enumerate(cfgs):
            if route == 'call':
                r = pipeline.run(rows, cfg or None)
            elif route == 'global':
                hit('C08.global_route')
                r = pipeline.run(rows, case.get('base'), glob=cfg)
            else:
                hit('C08.global_route')
                r = pipeline.run(rows, cfg['call'], glob=cfg['global'])
            res['n'] += 1
            sub = {**{k: v for k, v in case.items() if k != 'only_config'}, 'only_config': ci, 'spacings': [spacing]}
            detail = {'config': cname, 'rows': rows if len(rows) <= 12 else f'{len(rows)} rows of {case.get("name")}'}
            if refused:
                hit('C08.refusal_is_ampycloud_error')
                if r.ok or not isinstance(r.exc, AmpycloudError):
                    res['violations'].append({'clause': 'C08.refusal_is_ampycloud_error', 'site': f'{r.exc_type}@{r.site}',
                                              'detail': {**detail, 'raised': repr(r.exc)[:300]}, 'sub': sub})
                continue
            hit('C08.no_exception')
            if not r.ok:
                res['crashed'] += 1
                res['violations'].append({'clause': 'C08.no_exception', 'site': f'{r.exc_type}@{r.site}',
                                          'detail': {**detail, 'raised': f'{r.exc_type}: {str(r.exc)[:300]}'}, 'sub': sub})
                continue
            hit('C08.returns_types')
            if not isinstance(r.chunk, CeiloChunk) or not all(isinstance(r.msgs[w], str) for w in pipeline.LEVELS):
                res['violations'].append({'clause': 'C08.returns_types', 'site': 'run', 'detail': {**detail, 'msgs': repr(r.msgs)}, 'sub': sub})
            # exercised-shortcut bookkeeping
            valid = [x for x in rows if x[2] is not None]
            if any((x[3] == 0 and x[2] is not None) or (x[3] >= 1 and x[2] is None) or x[3] > 3 for x in rows):
                hit('C08.anomaly_input')
            if len(valid) == 1:
                hit('C08.single_valid_hit')
            if not valid:
                hit('C08.no_valid_hit')
            if len(r.chunk.groups) and any(n != -1 for n in r.chunk.groups['ncomp'].tolist()):
                hit('C08.mixture_engaged')
            if len(r.chunk.slices) and not all(bool(x) for x in r.chunk.slices['isolated'].tolist()):
                hit('C08.bundle')
            res['digests'].add(f"{case.get('name', case.get('cells'))}|{r.msgs['layers']}|{r.msgs['slices']}")
    res['digests'] = sorted(res['digests'])
    res['sample'] = {'fam': case['fam'], 'scene': case.get('name', case.get('cells')), 'configs': len(cfgs)}
    return res
