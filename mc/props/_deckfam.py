"""Family B (deck scenes, DESIGN 3) shared by C04, C05, C06 (and reused by C08, C10, C16).

A scene reaches grouping, merging and the mixture model (a group needs >= 30 hits to be split).
Everything is deterministic. Heights straddle every comparison: gaps on both sides of and exactly at
each MIN_SEP value, relative to the bottom AND to the top of ramped decks; chains needing repeated
merges; bimodal / trimodal decks; decks around a MIN_SEP_LIMS edge; two ceilometers with an offset.
"""
import itertools


def D(*decks, **kw):
    return {'gen': 'decks', 'decks': [dict(d) for d in decks], **kw}


def two_deck_scenes(tier, rich=True):
    out = []
    lowers = ['flat', 'rampup', 'rampdown'] + (['jitter'] if tier != 'quick' else [])
    uppers = ['flat', 'rampup']
    gaps = [240., 250., 260., 340., 440., 450., 460.] + ([150., 210., 400., 1200., 8000.] if tier != 'quick' else [210., 8000.])
    ns = [(40, 40), (40, 4)] + ([(4, 40), (30, 29)] if tier != 'quick' else [])
    for lo, up, gap, (n1, n2) in itertools.product(lowers, uppers, gaps, ns):
        if not rich and (up != 'flat' or gap in (340., 8000.)):
            continue
        out.append(('two:%s:%s:%g:%d:%d' % (lo, up, gap, n1, n2),
                    D({'h': 1000., 'n': n1, 'pattern': lo}, {'h': 1000. + gap, 'n': n2, 'pattern': up})))
    return out


def two_ceilo_scenes(tier):
    out = []
    for gap in (240., 260.):
        for lo in ('flat', 'rampup'):
            for off in (-200., 100.):
                out.append(('2c:%s:%g:%g' % (lo, gap, off),
                            D({'h': 1000., 'n': 40, 'pattern': lo}, {'h': 1000. + gap, 'n': 40},
                              ceilos=['a', 'b'], ceilo_offsets=[0., off])))
    # deck 1 seen by both (b lower), decks 2 and 3 by a only: merges decided with / without the exclusion
    for (h2, h3) in ((1200., 1300.), (1240., 1440.), (1200., 1480.)):
        for hb in (-200., -100.):
            out.append(('2c:excl:%g:%g:%g' % (h2, h3, hb),
                        D({'h': 1000., 'n': 16}, {'h': h2, 'n': 16, 'ceilo': 0}, {'h': h3, 'n': 16, 'ceilo': 0},
                          T=16, ceilos=['a', 'b'], ceilo_offsets=[0., hb])))
    # few non-excluded hits in the low deck (fall-back decided per set)
    for na in (2, 3, 4, 12):
        out.append(('2c:fallback:%d' % na,
                    D({'h': 1000., 'n': 30, 'pattern': 'jitter', 'ceilo': 1}, {'h': 1060., 'n': na, 'ceilo': 0},
                      {'h': 3000., 'n': 30}, T=30, ceilos=['a', 'b'])))
    # the non-excluded ceilometer contributes 4-6 raw hits that belong to only 2-3 measurements (first + second hit in one set)
    for nmeas in (2, 3):
        rows = []
        for i in range(20):
            dt = 0.0 - 15. * (19 - i)
            rows.append(['b', dt, 2040. + (i % 3), 1])
            if i < nmeas:
                rows += [['a', dt, 1980. + i, 1], ['a', dt, 1990. + i, 2]]
            else:
                rows.append(['a', dt, None, 0])
        out.append(('2c:fallback-multi:%d' % nmeas, {'gen': 'rows', 'rows': rows}))
    return out


def chain_scenes(tier):
    out = []
    gs = (200., 240., 260.)
    for g1, g2 in itertools.product(gs, gs):
        out.append(('chain:%g:%g' % (g1, g2), D({'h': 1000., 'n': 40}, {'h': 1000. + g1, 'n': 40}, {'h': 1000. + g1 + g2, 'n': 40})))
    if tier != 'quick':
        for g1, g2, g3 in itertools.product(gs, gs, gs):
            out.append(('chain4:%g:%g:%g' % (g1, g2, g3),
                        D({'h': 1000., 'n': 40}, {'h': 1000. + g1, 'n': 40}, {'h': 1000. + g1 + g2, 'n': 40},
                          {'h': 1000. + g1 + g2 + g3, 'n': 40})))
    return out


def edge_scenes(tier):
    """Three decks around a MIN_SEP_LIMS edge (used with multi-bin separations)."""
    out = []
    for (a, b, c, n2) in ((2500., 2850., 3100., 40), (2500., 2850., 3100., 4), (2700., 2950., 3100., 40), (2600., 2990., 3010., 40),
                          (9400., 9800., 10050., 4), (9000., 9600., 10100., 40)):
        out.append(('edge:%g:%g:%g:%d' % (a, b, c, n2), D({'h': a, 'n': 40}, {'h': b, 'n': n2}, {'h': c, 'n': 40})))
    return out


def split_scenes(tier):
    out = []
    pats = ['bimodal240', 'bimodal260', 'bimodal400', 'halves260', 'halves400', 'trimodal150', 'trimodal260',
            'modes:130:60', 'modes:60:130', 'modes:125:125', 'modes:260:130', 'modes:130:260']
    if tier != 'quick':
        pats += ['bimodal200', 'bimodal300', 'trimodal100', 'trimodal400', 'modes:300:60', 'modes:60:300', 'halves240']
    for p in pats:
        out.append(('split:%s' % p, D({'h': 1000., 'n': 60, 'pattern': p}, T=60)))
    # a ramp under a flat deck as second hits (one slice, split by the mixture model: the D3 shape)
    for gap in (340., 300., 400.):
        out.append(('rampsplit:%g' % gap, D({'h': 1000., 'n': 40, 'pattern': 'rampup'}, {'h': 1000. + gap, 'n': 40})))
    # split group + far deck above (table position of the split group > 0 when a deck lies below)
    out.append(('split+below', D({'h': 300., 'n': 20}, {'h': 2000., 'n': 60, 'pattern': 'modes:125:125'}, T=60)))
    out.append(('split+above', D({'h': 1000., 'n': 60, 'pattern': 'bimodal400'}, {'h': 9000., 'n': 20}, T=60)))
    return out


def degenerate_scenes(tier):
    rows = lambda r: {'gen': 'rows', 'rows': r}
    out = [
        ('single-hit', rows([['a', -30., None, 0], ['a', -15., 1000., 1], ['a', 0., None, 0]])),
        ('all-nan', rows([['a', -30., None, 0], ['a', -15., None, 0], ['b', -15., None, 0]])),
        ('one-row', rows([['a', 0., 1000., 1]])),
        ('identical', D({'h': 1000., 'n': 35}, T=35)),
        ('two-valued', D({'h': 1000., 'n': 40, 'pattern': 'two'})),
        ('two-hits', rows([['a', -15., 1000., 1], ['a', 0., 1010., 1]])),
        ('three-hits', rows([['a', -30., 1000., 1], ['a', -15., 1010., 1], ['a', 0., 5000., 1]])),
        ('vv-only', rows([['a', -30., 300., -1], ['a', -15., 310., -1], ['a', 0., 290., -1]])),
        # warning-only anomalies, one of each kind: a type-0 record carrying a height and a type-1 record with NaN
        ('anomaly-swap', rows([['a', -45., 1000., 1], ['a', -30., 1010., 0], ['a', -15., None, 1], ['a', 0., 1020., 1]])),
        ('anomaly-t0-height', rows([['a', -45., 1000., 1], ['a', -30., 1010., 0], ['a', -15., 1005., 1], ['a', 0., 1020., 1]])),
        # only second / third hits (type 2 without type 1 is a warning-only anomaly): with an MSA below them EVERY row is cropped away
        ('only-higher-hits', rows([['a', -15., 5000., 2], ['a', 0., 5200., 2]])),
        ('only-higher-hits+nd', rows([['a', -15., 5000., 2], ['a', -15., 5100., 3], ['b', 0., None, 0]])),
        ('anomaly-t1-nan', rows([['a', -45., 1000., 1], ['a', -30., None, 1], ['a', -15., 1005., 1], ['a', 0., 1020., 1]])),
    ]
    return out


def w119_scenes(tier=None):
    """Scenes found by exhaustive search that make a mixture fit leave a component unpopulated (#119 branch)."""
    from .. import scenes
    return [('w119:%d:%d:%d:%d:%d' % a, {'gen': 'lcgdeck', 'args': list(a)}) for a in scenes.W119]


def overlap_scenes(tier):
    """Thick adjacent decks -> non-isolated slices (bundles), with second hits above an MSA."""
    out = []
    for gap in (210., 230.):
        out.append(('overlap:%g' % gap, D({'h': 1000., 'n': 40, 'pattern': 'rampup'}, {'h': 1000. + gap, 'n': 40, 'pattern': 'rampup'})))
        out.append(('overlap+high:%g' % gap, D({'h': 1000., 'n': 40, 'pattern': 'rampup'}, {'h': 1000. + gap, 'n': 40, 'pattern': 'rampup'},
                                                 {'h': 9000., 'n': 12, 'where': 'first'})))
        out.append(('overlap+high+clear:%g' % gap, D({'h': 1000., 'n': 30, 'pattern': 'rampup', 'where': 'first'},
                                                       {'h': 1000. + gap, 'n': 30, 'pattern': 'rampup', 'where': 'first'},
                                                       {'h': 9000., 'n': 12, 'where': 'first'})))
    return out


def disordered_scenes(tier=None):
    """Hit types NOT ordered in height (accepted input): first hit high, second/third hits low, with an MSA in between."""
    rows = []
    for i in range(12):
        dt = 0.0 - 15. * (11 - i)
        rows += [['a', dt, 9000. + 10 * i, 1], ['a', dt, 1000. + 5 * i, 2]]
        rows += [['b', dt, 1010. + 5 * i, 1], ['b', dt, 9100., 2]] if i % 3 else [['b', dt, 9100., 1], ['b', dt, 1010. + 5 * i, 2], ['b', dt, 2500., 3]]
    return [('disordered-types', {'gen': 'rows', 'rows': rows})]


def double_split_scenes(tier=None):
    """Two groups that are BOTH split by the mixture step (three-mode low deck + two-mode high deck, and variants)."""
    out = []
    for low in ('modes:180:420', 'modes:420:180', 'modes:125:125', 'trimodal260', 'bimodal400'):
        for high in ('bimodal500', 'halves400'):
            out.append(('2split:%s:%s' % (low, high), D({'h': 1000., 'n': 60, 'pattern': low}, {'h': 5000., 'n': 60, 'pattern': high}, T=60)))
    # a three-component model reduced to two by the min-sep re-merge (any of the three labels may be the one merged away), below a second split group
    for (d1, d2) in ((200, 500), (500, 200), (150, 600), (600, 150), (230, 330), (330, 230)):
        for n in (60, 90):
            out.append(('2split:3to2:%d:%d:%d' % (d1, d2, n), D({'h': 1000., 'n': n, 'pattern': 'modes:%d:%d' % (d1, d2)},
                                                                 {'h': 5000., 'n': n, 'pattern': 'bimodal500'}, T=n)))
    return out


def streak_scenes(tier=None):
    """Two sets overlapping in height range: an early THICK deck from which one ceilometer trails a descending streak of hits to BELOW a
    later, lower, thin layer (> 180 s later, so that the grouping stage's time-height clustering attaches the streak to the upper set)."""
    out = []
    for (hi, lo, nstreak, step) in ((1380., 1100., 12, 30.), (1400., 1150., 10, 35.), (1380., 1100., 0, 0.), (1380., 1100., 6, 60.),
                                    (2380., 2100., 12, 30.)):
        rows = []
        for ci, c in enumerate(('a', 'b', 'c', 'd')):
            for i in range(115):
                dt = 0.0 - 15. * (114 - i) + ci
                if i < 62:
                    h = hi + ((i * 7 + 13 * ci) % 60) * 5.
                    if ci == 0 and 10 <= i < 10 + nstreak:
                        h = hi - step * (i - 9)
                    rows.append([c, dt, h, 1])
                elif i >= 75:
                    rows.append([c, dt, lo + ((i + ci) % 3) * 5., 1])
                else:
                    rows.append([c, dt, None, 0])
        out.append(('streak:%g:%g:%d:%g' % (hi, lo, nstreak, step), {'gen': 'rows', 'rows': rows}))
    return out


def sync_tie_scenes(tier=None):
    """K synchronised ceilometers (every time stamp is a K-way tie), two thin decks d ft apart seen as first / second hits, the upper deck with
    two low outliers well inside any look-back window and a third one IN the tie group where the look-back cut falls (for look-back 35 / 45 %)."""
    out = []
    K, T = 4, 30
    for d in (110.,):
        for (step_back, c) in [(sb, c) for sb in (10, 11, 12, 14) for c in range(K)]:
            rows = []
            for i in range(T):
                dt = 0.0 - 30. * (T - 1 - i)
                for k in range(K):
                    up = 1000. + d + 5. * (i % 3 - 1)
                    if (i, k) in ((T - 3, 0), (T - 6, 2)) or (i, k) == (T - step_back, c):
                        up = 1000. + d - 25.
                    rows.append(['c%d' % k, dt, 1000. + 5. * (i % 3 - 1), 1])
                    rows.append(['c%d' % k, dt, up, 2])
            out.append(('sync:%g:%d:%d' % (d, step_back, c), {'gen': 'rows', 'rows': rows}))
    return out


def single_survivor_scenes(tier=None):
    """A two-level high cloud (first + second hits, all above a 10000 ft MSA) and ONE low first hit at time step k: after the crop exactly
    one valid hit survives, at a row position that may coincide with the label of a dropped row."""
    out = []
    for k in (0, 3, 5, 6, 7, 9):
        rows = []
        for i in range(10):
            dt = 0.0 - 15. * (9 - i)
            if i == k:
                rows.append(['a', dt, 500., 1])
            else:
                rows += [['a', dt, 12000. + 10 * i, 1], ['a', dt, 15000. + 10 * i, 2]]
        out.append(('single-survivor:%d' % k, {'gen': 'rows', 'rows': rows}))
    return out
