"""C11 - running never modifies caller data, caller parameters or the global parameters.

E2: explicit-state breadth-first search over histories of parameter-store / construct / run / edit
operations executed on the REAL module state (ampycloud.dynamic.AMPYCLOUD_PRMS, live CeiloChunk
objects, caller-owned frames and dicts). Every history is replayed from a reset module; states are
de-duplicated by a content digest of (global, every live snapshot, run flags). Reference model: a
plain nested-dict algebra with deep copies, stepped alongside; after every step the real global, every
live snapshot and every caller object are compared with the model / their pristine deep copies; the RESULTS of
every first run of a chunk are compared with those of the same frame processed alone (fresh fork, default global)
with the model's snapshot as parameters - an edit of the global after the construction must not show in them.
"""
import copy
import os
import tempfile
import warnings

from .. import scenes
from ..digest import obj_digest, frame_digest, result_digest
from .C13 import isolated

TITLE = 'caller data, caller parameters and global parameters never modified'
EXPLORER = 'E2'
CLAUSES = ['C11.caller_frame', 'C11.caller_dict', 'C11.global', 'C11.snapshot_private', 'C11.later_chunks',
           'C11.global_edit_after_construct', 'C11.snapshot_edit', 'C11.reset_after_nested_edit', 'C11.extra_column_frame',
           'C11.result_from_snapshot', 'C11.result_after_global_edit']
RULE = ('operations: 4 in-place edits of the global (two top-level scalars, third-level nested value, list element), 9 constructions '
        '(5 frames incl. wrong dtypes / extra columns / clean dtypes + extra columns / odd index / a rich 3-ceilometer scene reaching bundles, splits and the exclusion fall-back x 8 per-call dicts: None, {}, flat, '
        'nested-partial, third-level, list-valued, unsorted list-valued, unknown keys), run(i), 2 in-place edits of a chunk snapshot, reset_prms(), '
        'reset_prms([name]), set_prms(yaml); at most 2 live chunks. All histories up to the depth bound, de-duplicated by content digest. '
        'states = distinct content digests, transitions = real operations judged, traces_validated = histories replayed from scratch')
ASSUMPTIONS = ['in-place edits of a snapshot use paths that no per-call dict provided (a list passed by the caller is aliased into the '
               'snapshot by design of adjust_nested_dict; the statement does not cover that)']

ROWS_CLEAN = [['a', -30., 1000., 1], ['a', -15., 1010., 1], ['a', -15., 5000., 2], ['b', -15., 1020., 1], ['b', 0., None, 0]]
P_TEMPLATES = {
    'None': None,
    'empty': {},
    'flat': {'MSA': 3000, 'MAX_HITS_OKTA0': 1},
    'nested': {'LAYERING_PRMS': {'min_okta_to_split': 3}, 'LOWESS': {'it': 1}},
    'deep': {'LAYERING_PRMS': {'gmm_kwargs': {'delta_mul_gain': 0.5}}, 'SLICING_PRMS': {'height_scale_kwargs': {'min_range': 2000}}},
    'lists': {'MIN_SEP_VALS': [100, 500], 'EXCLUDE_FOR_BASE_HEIGHT_CALC': ['b']},
    'unknown': {'FOO': 1, 'LOWESS': {'bar': 2}, 'MSA': 4000},
    # list-valued leaves given in an order the algorithm does not care about (must still be left exactly as given)
    'unsorted': {'GROUPING_PRMS': {'height_scale_range': [500, 100]}, 'EXCLUDE_FOR_BASE_HEIGHT_CALC': ['c', 'b'], 'MAX_HITS_OKTA0': 3},
}
YAML_TEXT = "MSA: 2500\nLOWESS:\n    frac: 0.5\nLAYERING_PRMS:\n    gmm_kwargs:\n        mode: prob\n"
YAML_DICT = {'MSA': 2500, 'LOWESS': {'frac': 0.5}, 'LAYERING_PRMS': {'gmm_kwargs': {'mode': 'prob'}}}

G_EDITS = {
    'G:MSA': (('MSA',), 5000),
    'G:deep': (('LAYERING_PRMS', 'gmm_kwargs', 'scores'), 'AIC'),
    'G:list': (('MIN_SEP_VALS', 0), 123),
    'G:okta0': (('MAX_HITS_OKTA0',), 1),
}
S_EDITS = {
    'frac': (('LOWESS', 'frac'), 0.9),
    'lims0': (('MIN_SEP_LIMS', 0), 9999),        # (a list element no per-call template provides: see ASSUMPTIONS)
}
CONSTRUCTS = [('clean', p) for p in P_TEMPLATES if p != 'unsorted'] + [('sloppy_extra', 'None'), ('clean_extra', 'flat'), ('oddindex', 'nested'),
                                                                         ('rich', 'unsorted'), ('rich', 'lists')]


def make_frame(kind):
    import pandas as pd
    df = scenes.frame(ROWS_CLEAN)
    if kind == 'clean':
        return df
    if kind == 'sloppy_extra':
        df['ceilo'] = df['ceilo'].astype(object); df['type'] = df['type'].astype(float); df['quality'] = 1
        return df
    if kind == 'clean_extra':
        df['station'] = 'GVA'; df['quality'] = [0, 1, 2, 0, 1]
        return df
    if kind == 'oddindex':
        df.index = [5, 5, 3, 'x', 2.5]
        return df
    if kind == 'rich':
        # a scene that reaches the data-dependent branches of the later stages: a bundle of overlapping slices, a group split by the mixture
        # step, an MSA-croppable high deck, and a layer seen almost only by ceilometers 'b'/'c' (exclusion fall-back)
        from .. import scenes as sc
        from . import _deckfam
        rows = sc.build(_deckfam.D({'h': 1000., 'n': 30, 'pattern': 'rampup', 'ceilo': 0}, {'h': 1210., 'n': 30, 'pattern': 'rampup', 'ceilo': 0},
                                   {'h': 1800., 'n': 2, 'ceilo': 0}, {'h': 1810., 'n': 20, 'ceilo': 2}, {'h': 1805., 'n': 12, 'ceilo': 1},
                                   T=30, ceilos=['a', 'b', 'c']))
        return sc.frame(rows)
    raise ValueError(kind)


def ops_menu(n_chunks):
    ops = list(G_EDITS)
    if n_chunks < 2:
        ops += [f'C:{f}:{p}' for f, p in CONSTRUCTS]
    for i in range(n_chunks):
        ops.append(f'R:{i}')
        ops += [f'S:{i}:{k}' for k in S_EDITS]
    ops += ['reset', 'reset:LOWESS', 'reset:LAYERING_PRMS', 'set_prms']
    return ops


def bound(tier):
    return 'all histories of depth <= %d over a %d-operation menu (<= 2 live chunks)' % (3 if tier == 'quick' else 4, len(ops_menu(2)) + len(CONSTRUCTS))


def cases(tier):
    depth = 3 if tier == 'quick' else 4
    # one case per first operation: the subtree below it is explored exhaustively inside the case
    return [{'first': op, 'depth': depth} for op in ops_menu(0)]


def weight(case):
    return 5 if case['first'].startswith('C:') else 1


def set_path(d, path, v):
    for k in path[:-1]:
        d = d[k]
    d[path[-1]] = v


def model_adjust(ref, new):
    for k, item in new.items():
        if k not in ref:
            continue
        if isinstance(item, dict):
            ref[k] = model_adjust(ref[k], item)
        else:
            ref[k] = copy.deepcopy(item)
    return ref


class World:
    """Real objects + the reference model, stepped together."""

    def __init__(self, yaml_path):
        import ampycloud
        from ampycloud import dynamic
        ampycloud.reset_prms()
        self.dynamic = dynamic
        self.amp = ampycloud
        # the packaged defaults are read by the HARNESS from the YAML file (never through the code under test)
        from ruamel.yaml import YAML
        from pathlib import Path
        self.defaults = YAML(typ='safe').load(Path(dynamic.__file__).parent / 'prms' / 'ampycloud_default_prms.yml')
        self.mG = copy.deepcopy(self.defaults)
        self.chunks = []        # dicts: real, model snapshot, caller frame + pristine, caller dict + pristine, ran
        self.yaml_path = yaml_path

    def step(self, op):
        from ampycloud.data import CeiloChunk
        with warnings.catch_warnings():
            warnings.simplefilter('ignore')
            if op.startswith('G:'):
                path, v = G_EDITS[op]
                set_path(self.dynamic.AMPYCLOUD_PRMS, path, v)
                set_path(self.mG, path, v)
            elif op.startswith('C:'):
                _, fk, pk = op.split(':')
                fr = make_frame(fk)
                P = copy.deepcopy(P_TEMPLATES[pk])
                rec = {'frame': fr, 'frame0': copy.deepcopy(fr), 'P': P, 'P0': copy.deepcopy(P), 'ran': False, 'fk': fk, 'pk': pk}
                rec['real'] = CeiloChunk(fr, prms=P)
                snap = copy.deepcopy(self.mG)
                if P is not None:
                    snap = model_adjust(snap, P)
                rec['model'] = snap
                self.chunks.append(rec)
            elif op.startswith('R:'):
                rec = self.chunks[int(op[2:])]
                c = rec['real']
                if rec['ran']:      # a second "run" on the same chunk: only the permitted repeats (C14 covers call order)
                    c.find_slices(); c.find_layers(); c.metar_msg()
                else:
                    c.find_slices(); c.find_groups(); c.find_layers(); c.metar_msg()
                    # what the chunk produced, and the snapshot it must have been produced from (the model's, at this moment)
                    rec['result'] = result_digest(c)
                    rec['model_at_run'] = copy.deepcopy(rec['model'])
                rec['ran'] = True
            elif op.startswith('S:'):
                _, i, k = op.split(':')
                rec = self.chunks[int(i)]
                path, v = S_EDITS[k]
                set_path(rec['real'].prms, path, v)
                set_path(rec['model'], path, v)
            elif op == 'reset':
                self.amp.reset_prms()
                self.mG = copy.deepcopy(self.defaults)
            elif op.startswith('reset:'):
                name = op[6:]
                self.amp.reset_prms(name)
                self.mG[name] = copy.deepcopy(self.defaults[name])
            elif op == 'set_prms':
                self.amp.set_prms(self.yaml_path)
                self.mG = model_adjust(self.mG, YAML_DICT)
            else:
                raise ValueError(op)

    def compare(self):
        """List of (clause, detail) where the real world departs from the model."""
        bad = []
        if self.dynamic.AMPYCLOUD_PRMS != self.mG:
            bad.append(('C11.global', {'diff': dict_diff(self.mG, self.dynamic.AMPYCLOUD_PRMS)}))
        for i, rec in enumerate(self.chunks):
            if rec['real'].prms != rec['model']:
                bad.append(('C11.snapshot_private', {'chunk': i, 'built_with': [rec['fk'], rec['pk']], 'diff': dict_diff(rec['model'], rec['real'].prms)}))
            if not frames_equal(rec['frame'], rec['frame0']):
                bad.append(('C11.caller_frame', {'chunk': i, 'frame': rec['fk'], 'columns_now': list(map(str, rec['frame'].columns)),
                                                 'dtypes_now': [str(t) for t in rec['frame'].dtypes], 'index_now': [repr(x) for x in rec['frame'].index]}))
            if rec['P'] != rec['P0']:
                bad.append(('C11.caller_dict', {'chunk': i, 'dict_now': rec['P'], 'was': rec['P0']}))
            if 'result' in rec and not rec.get('judged'):
                rec['judged'] = True
                ref = self.reference(rec['fk'], rec['model_at_run'])
                if ref != rec['result']:
                    bad.append(('C11.result_from_snapshot', {'chunk': i, 'built_with': [rec['fk'], rec['pk']],
                                                            'problem': 'the results of this chunk differ from those of the same frame processed, in a process whose '
                                                                       'global parameters are the packaged defaults, with the chunk\'s own snapshot as parameters'}))
        return bad

    REFS = {}

    def reference(self, fk, snapshot):
        """The same frame processed ALONE (fresh fork, global parameters put back to the packaged defaults by the harness) with the full
        snapshot handed over per call."""
        key = obj_digest([fk, snapshot])
        if key not in World.REFS:
            defaults = self.defaults
            dyn = self.dynamic

            def alone():
                from ampycloud.data import CeiloChunk
                dyn.AMPYCLOUD_PRMS.clear()
                dyn.AMPYCLOUD_PRMS.update(copy.deepcopy(defaults))
                with warnings.catch_warnings():
                    warnings.simplefilter('ignore')
                    c = CeiloChunk(make_frame(fk), prms=copy.deepcopy(snapshot))
                    c.find_slices(); c.find_groups(); c.find_layers(); c.metar_msg()
                return result_digest(c)
            World.REFS[key] = isolated(alone)
        return World.REFS[key]

    def digest(self):
        return obj_digest([self.dynamic.AMPYCLOUD_PRMS, [(r['real'].prms, r['ran'], r['fk']) for r in self.chunks]])


def frames_equal(a, b):
    return (list(a.columns) == list(b.columns) and [repr(x) for x in a.index] == [repr(x) for x in b.index]
            and [str(t) for t in a.dtypes] == [str(t) for t in b.dtypes] and frame_digest(a) == frame_digest(b))


def dict_diff(exp, got, prefix=''):
    out = {}
    if not isinstance(exp, dict) or not isinstance(got, dict):
        return {prefix or '.': {'expected': exp, 'got': got}}
    for k in set(exp) | set(got):
        p = f'{prefix}{k}'
        if k not in got:
            out[p] = {'expected': exp[k], 'got': '<missing>'}
        elif k not in exp:
            out[p] = {'expected': '<absent>', 'got': got[k]}
        elif exp[k] != got[k]:
            if isinstance(exp[k], dict) and isinstance(got[k], dict):
                out.update(dict_diff(exp[k], got[k], p + '.'))
            else:
                out[p] = {'expected': exp[k], 'got': got[k]}
    return out


def run_case(case):
    res = {'n': 0, 'clauses': {}, 'digests': set(), 'violations': [], 'extra': {'states': 0, 'transitions': 0, 'traces': 0}}
    cl = res['clauses']

    def hit(c):
        cl[c] = cl.get(c, 0) + 1

    tmpd = tempfile.mkdtemp(prefix='mc_c11_')
    ypath = os.path.join(tmpd, 'prms.yml')
    with open(ypath, 'w') as f:
        f.write(YAML_TEXT)
    try:
        def replay(hist):
            w = World(ypath)
            viols = []
            for k, op in enumerate(hist):
                w.step(op)
                if k == len(hist) - 1:
                    viols = w.compare()
            res['extra']['traces'] += 1
            return w, viols

        seen = set()
        frontier = [[case['first']]]
        for depth in range(1, case['depth'] + 1):
            nxt = []
            for hist in frontier:
                try:
                    w, viols = replay(hist)
                except Exception as e:
                    res['violations'].append({'clause': 'C11.global', 'site': 'exception', 'detail': {'history': hist, 'raised': repr(e)[:300]},
                                              'sub': {'first': hist[0], 'depth': case['depth'], 'stop_at': hist}})
                    continue
                res['extra']['transitions'] += 1
                res['n'] += 1
                op = hist[-1]
                for c in ('C11.global', 'C11.snapshot_private', 'C11.caller_frame', 'C11.caller_dict'):
                    hit(c)
                if op.startswith('C:') and len(hist) > 1:
                    hit('C11.later_chunks')
                if op.startswith('C:') and 'extra' in op:
                    hit('C11.extra_column_frame')
                if op.startswith('G:') and any(h.startswith('C:') for h in hist[:-1]):
                    hit('C11.global_edit_after_construct')
                if op.startswith('S:'):
                    hit('C11.snapshot_edit')
                if op.startswith('R:') and not any(h == op for h in hist[:-1]):
                    hit('C11.result_from_snapshot')
                    ci = [k for k, h in enumerate(hist) if h.startswith('C:')][int(op[2:])]
                    if any(h.startswith(('G:', 'set_prms')) for h in hist[ci + 1:-1]):
                        hit('C11.result_after_global_edit')
                if op.startswith('reset') and any(h in ('G:deep', 'G:list', 'set_prms') for h in hist[:-1]):
                    hit('C11.reset_after_nested_edit')
                for clause, detail in viols:
                    if len(res['violations']) < 40:
                        res['violations'].append({'clause': clause, 'site': op.split(':')[0], 'detail': {'history': hist, **detail},
                                                  # replay = the same exploration, in the same order, truncated at this history
                                                  'sub': {'first': hist[0], 'depth': case['depth'], 'stop_at': hist}})
                if case.get('stop_at') == hist:
                    res['extra']['states'] = len(seen) + 1
                    res['digests'] = sorted(seen)
                    return res
                d = w.digest()
                if d in seen:
                    continue
                seen.add(d)
                if depth < case['depth']:
                    for op2 in ops_menu(len(w.chunks)):
                        nxt.append(hist + [op2])
            frontier = nxt
        res['extra']['states'] = len(seen)
        res['digests'] = sorted(seen)
        res['sample'] = {'first_op': case['first'], 'depth': case['depth'], 'states': len(seen), 'transitions': res['extra']['transitions']}
    finally:
        import ampycloud
        ampycloud.reset_prms()
        try:
            os.remove(ypath); os.rmdir(tmpd)
        except OSError:
            pass
    return res
