"""C05 - every hit is accounted for exactly once at every stage.

E1 over family B (splits in 2 and 3, merges, bundles of overlapping slices, second hits above an
MSA), degenerate micro scenes, witness scenes with MSA variants and the id-allocation family (S
far-apart single hits + one splittable chain, S across the 100 boundary, split group at table
position 0/1/2). Oracle: accounting invariants between ``chunk.data`` (per-hit ids), the three tables,
the set counts and the caller's rows minus the reference MSA crop.
"""
import itertools

from . import _deckfam
from .. import pipeline, scenes
from ..digest import obj_digest
from .C07 import ref_crop, data_rows

TITLE = 'every hit accounted for once'
EXPLORER = 'E1'
CLAUSES = ['C05.valid_assigned', 'C05.nan_unassigned', 'C05.tables_match_ids', 'C05.n_match', 'C05.layer_in_one_group',
           'C05.ncomp_layers', 'C05.hits_conserved', 'C05.split', 'C05.merged', 'C05.bundle', 'C05.cropped_rows_dropped',
           'C05.ids_over_100', 'C05.excluded_split']
RULE = ('family B scenes (two-deck, two-ceilometer, chains, splits, overlapping thick decks with second hits above an MSA) x '
        'parameter variants (MSA/buffer, exclusion lists, slicing threshold, min_okta_to_split); degenerate scenes; 17 reference '
        'scenes + demo x MSA variants; id-allocation family S in {3,60,99,100,101,102,111,112} x split-group position {0,1,2}. '
        'distinct_nontrivial = distinct (id partition, tables) digests of runs with >= 2 sets at some level')
ASSUMPTIONS = ['hits cropped above MSA+buffer are excepted through the reference crop (first/VV hits become non-detections, '
               'higher hits are removed)']

B_VARIANTS = [
    {},
    {'MSA': 3000.0, 'MSA_HIT_BUFFER': 1500.0},
    {'MSA': 10000.0},
    {'MSA': 3000.0, 'MSA_HIT_BUFFER': 0.0},
    {'MSA': 1200.0, 'MSA_HIT_BUFFER': 100.0},
    {'SLICING_PRMS': {'distance_threshold': 0.05}},
    {'LAYERING_PRMS': {'min_okta_to_split': 0}, 'MIN_SEP_VALS': [100, 1000]},
    {'GROUPING_PRMS': {'height_pad_perc': 100}},
]
EXCL_VARIANTS = [{'EXCLUDE_FOR_BASE_HEIGHT_CALC': ['b']}, {'EXCLUDE_FOR_BASE_HEIGHT_CALC': ['a'], 'MIN_SEP_VALS': [100, 1000]}]
W_VARIANTS = [{}, {'MSA': 2000.0, 'MSA_HIT_BUFFER': 0.0}, {'MSA': 5000.0, 'MSA_HIT_BUFFER': 0.0}, {'MSA': 10000.0},
              {'MSA': 3000.0, 'MSA_HIT_BUFFER': 500.0, 'EXCLUDE_FOR_BASE_HEIGHT_CALC': ['PO']}]


def _b_scenes(tier):
    D = _deckfam.D
    sc = (_deckfam.two_deck_scenes(tier, rich=False) + _deckfam.two_ceilo_scenes(tier) + _deckfam.chain_scenes(tier)
          + _deckfam.split_scenes(tier) + _deckfam.overlap_scenes(tier) + _deckfam.degenerate_scenes(tier)
          + _deckfam.w119_scenes(tier) + _deckfam.disordered_scenes(tier) + _deckfam.double_split_scenes(tier) + _deckfam.streak_scenes(tier)
          + _deckfam.single_survivor_scenes(tier)[:2])
    # three ceilometers, two decks forming one group split in two (exclusion must not change the accounting)
    sc.append(('3c:split', D({'h': 1500., 'n': 30, 'pattern': 'jitter'}, {'h': 1950., 'n': 30, 'pattern': 'jitter'}, T=30,
                             ceilos=['a', 'b', 'c'])))
    sc.append(('2c:split', D({'h': 1000., 'n': 40, 'pattern': 'bimodal400'}, T=40, ceilos=['a', 'b'], ceilo_offsets=[0., 20.])))
    return sc


def bound(tier):
    return 'B: %d scenes x 6-8 variants; W: 18 scenes x 5 variants; id-allocation: %s' % (
        len(_b_scenes(tier)), 'S in {3,60,99,100,101,102,111,112} x pos {0,1,2}' if tier == 'quick' else 'S = 1..125 x pos {0,1,2}')


def cases(tier):
    out = []
    for name, spec in _b_scenes(tier):
        var = list(B_VARIANTS)
        if name.startswith(('2c:', '3c:')):
            var += EXCL_VARIANTS
        out.append({'fam': 'B', 'name': name, 'scene': spec, 'variants': var})
    for name in scenes.witness_names():
        out.append({'fam': 'W', 'name': name, 'scene': {'gen': 'witness', 'name': name}, 'variants': W_VARIANTS})
    out.append({'fam': 'W', 'name': 'demo', 'scene': {'gen': 'demo'}, 'variants': W_VARIANTS[:4] + [{'EXCLUDE_FOR_BASE_HEIGHT_CALC': ['1']}]})
    S_list = (3, 60, 99, 100, 101, 102, 111, 112) if tier == 'quick' else range(1, 126)
    for S in S_list:
        for pos in (0, 1, 2):
            if pos <= S:
                out.append({'fam': 'ID', 'name': f'idalloc:{S}:{pos}', 'scene': {'gen': 'idalloc', 'S': S, 'pos': pos},
                            'variants': [scenes.ID_ALLOC_PRMS]})
    return out


def weight(case):
    if case['fam'] == 'ID':
        return 50 + case['scene']['S']
    return 20 if case['fam'] == 'W' else 1


def judge(res, rows, r, prms, sub, name):
    cl = res['clauses']

    def hit(c):
        cl[c] = cl.get(c, 0) + 1

    def viol(clause, detail):
        detail = dict(detail); detail.update({'prms': prms, 'scene': name})
        res['violations'].append({'clause': clause, 'site': clause.split('.')[1], 'detail': detail, 'sub': sub})

    c = r.chunk
    data = c.data
    hs = data['height'].tolist()
    valid = [h == h for h in hs]
    ids = {w: data[w[:-1] + '_id'].tolist() for w in pipeline.LEVELS}
    # ids >= 0 <=> height valid, at every level
    for w in pipeline.LEVELS:
        hit('C05.valid_assigned'); hit('C05.nan_unassigned')
        def assigned(k):
            return k is not None and k == k and k >= 0
        bad_v = [i for i, (v, k) in enumerate(zip(valid, ids[w])) if v and not assigned(k)]
        bad_n = [i for i, (v, k) in enumerate(zip(valid, ids[w])) if (not v) and assigned(k)]
        if bad_v:
            viol('C05.valid_assigned', {'which': w, 'rows_with_valid_height_but_no_set': bad_v[:10], 'n': len(bad_v)})
        if bad_n:
            viol('C05.nan_unassigned', {'which': w, 'non_detections_in_a_set': bad_n[:10], 'ids': [ids[w][i] for i in bad_n[:10]]})
        tab = getattr(c, w)
        tab_ids = sorted(int(x) for x in tab['cluster_id'].tolist())
        present = sorted({int(k) for k in ids[w] if assigned(k)})
        hit('C05.tables_match_ids')
        if tab_ids != present:
            viol('C05.tables_match_ids', {'which': w, 'table_cluster_ids': tab_ids[:40], 'ids_in_data': present[:40]})
        hit('C05.n_match')
        n_attr = getattr(c, 'n_' + w)
        if not (n_attr == len(tab) == len(present)):
            viol('C05.n_match', {'which': w, 'n_' + w: n_attr, 'table_rows': len(tab), 'distinct_ids': len(present)})
        if any(k >= 100 for k in present):
            hit('C05.ids_over_100')
    # each slice inside one group?  (not claimed)  each LAYER inside exactly one group:
    l2g = {}
    for lid, gid in zip(ids['layers'], ids['groups']):
        if lid is not None and lid == lid and lid >= 0:
            l2g.setdefault(lid, set()).add(gid)
    hit('C05.layer_in_one_group')
    multi = {int(l): sorted(int(x) for x in g) for l, g in l2g.items() if len(g) != 1}
    if multi:
        viol('C05.layer_in_one_group', {'layers_spanning_groups': dict(list(multi.items())[:5])})
    # a group reported with k sub-components yields exactly max(k,1) layers
    g2l = {}
    for lid, gid in zip(ids['layers'], ids['groups']):
        if gid is not None and gid == gid and gid >= 0:
            g2l.setdefault(gid, set()).add(lid)
    excl = pipeline.effective(prms, 'EXCLUDE_FOR_BASE_HEIGHT_CALC')
    for g in pipeline.table_rows(c.groups):
        k = g['ncomp']
        want = k if k >= 1 else 1
        hit('C05.ncomp_layers')
        if k >= 2:
            hit('C05.split')
            if excl:
                hit('C05.excluded_split')
        got = len(g2l.get(g['cluster_id'], ()))
        if got != want:
            viol('C05.ncomp_layers', {'group': g['cluster_id'], 'ncomp': k, 'layers_holding_its_hits': sorted(int(x) for x in g2l.get(g['cluster_id'], ()))})
    if c.n_slices is not None and c.n_groups is not None and c.n_slices > c.n_groups:
        hit('C05.merged')
    if len(c.slices) and not all(bool(x) for x in c.slices['isolated'].tolist()):
        hit('C05.bundle')
    # hits conserved (time, ceilometer, type, height), MSA crop excepted
    lim = pipeline.crop_limit(prms)
    exp = ref_crop([tuple(x) for x in rows], lim)
    got = data_rows(c)
    hit('C05.hits_conserved')
    if lim is not None and any(x[2] is not None and x[2] > lim and x[3] > 1 for x in rows):
        hit('C05.cropped_rows_dropped')
    if exp != got:
        miss = [x for x in exp if x not in got][:5]
        extra = [x for x in got if x not in exp][:5]
        viol('C05.hits_conserved', {'missing_or_altered': miss, 'unexpected': extra, 'n_expected': len(exp), 'n_got': len(got)})
    if max(len(c.slices), len(c.groups), len(c.layers)) >= 2:
        res['digests'].add(obj_digest([ids['slices'], ids['groups'], ids['layers'], prms]))


def run_case(case):
    res = {'n': 0, 'clauses': {}, 'digests': set(), 'violations': [], 'crashed': 0}
    rows = scenes.build(case['scene'])
    variants = case['variants'] if 'only_variant' not in case else case['variants'][:case['only_variant'] + 1]
    for vi, prms in enumerate(variants):
        r = pipeline.run(rows, prms, msgs=False)
        res['n'] += 1
        sub = {**{k: v for k, v in case.items() if k != 'only_variant'}, 'only_variant': vi}
        if not r.ok:
            res['crashed'] += 1
            continue
        judge(res, rows, r, prms, sub, case['name'])
    res['digests'] = sorted(res['digests'])
    res['sample'] = {'fam': case['fam'], 'scene': case['name'], 'variants': len(case['variants'])}
    return res
