"""C09 - results are bit-for-bit reproducible and the global random state is left alone.

E1/E2 over execution environments: every target scene (all engage the mixture model; some reach the
unpopulated-component branch #119) is processed (a) under each global NumPy RNG state of a menu, (b)
after EVERY prior history of length <= 2 over a menu of six operations (other runs with other -
also third-level - per-call parameters, demo data generation, a diagnostic plot, tmp_seed whose body
raises, the user's own use of the global generator, set_prms + reset_prms), each history in a fresh fork,
(c) in fresh interpreters started with different PYTHONHASHSEED values. Oracle: the digest of
data + tables + messages equals the reference obtained in a pristine process, and
numpy.random.get_state() is bit-identical before and after every public ampycloud call.
The hook guard is OFF.
"""
import copy
import itertools
import os
import subprocess
import sys
import warnings

import numpy as np

from . import _deckfam
from .. import scenes, env
from ..digest import result_digest, obj_digest, frame_digest
from .C13 import isolated

TITLE = 'bit-for-bit reproducibility, RNG untouched'
EXPLORER = 'E1'
CLAUSES = ['C09.digest_equal_rng', 'C09.digest_equal_history', 'C09.digest_equal_hashseed', 'C09.rng_untouched_run', 'C09.rng_untouched_construct',
           'C09.rng_untouched_demo', 'C09.rng_untouched_tmp_seed_raise', 'C09.rng_untouched_plot', 'C09.demo_data_equal', 'C09.mixture_engaged',
           'C09.branch119_target', 'C09.digest_equal_after_whatif']
RULE = ('targets: 7 scenes engaging the mixture model (2 reach the #119 branch) + the canonical demo data; RNG: 6 global states (seeds 0, 1, '
        '2^32-1, after 1000 draws, with a cached Gaussian, after shuffle) ; HISTORY: all sequences of length <= 2 over 8 prior operations (73 per '
        'target), each in a fresh fork; WHAT-IF: the data of the target itself under every single-leaf deviation of the parameter menu, then the target again; HASHSEED: fresh interpreters with PYTHONHASHSEED in {0,1,2,4242,random}. distinct_nontrivial = distinct '
        '(target, environment) pairs executed')
ASSUMPTIONS = ['numerical-library thread counts pinned to 1 (the property excludes bitwise reproducibility across thread counts)',
               'one machine, one library build']


def targets():
    D = _deckfam.D
    return {
        'split': (D({'h': 1000., 'n': 60, 'pattern': 'bimodal400'}, T=60), None),
        'modes': (D({'h': 1000., 'n': 60, 'pattern': 'modes:125:125'}, T=60), {'MIN_SEP_VALS': [100, 1000]}),
        'w119a': ({'gen': 'lcgdeck', 'args': list(scenes.W119[1])}, None),
        'w119b': ({'gen': 'lcgdeck', 'args': list(scenes.W119[2])}, None),
        'w119c': ({'gen': 'lcgdeck', 'args': list(scenes.W119[0])}, {'LAYERING_PRMS': {'gmm_kwargs': {'scores': 'AIC'}}}),
        'rampsplit': (D({'h': 1000., 'n': 40, 'pattern': 'rampup'}, {'h': 1340., 'n': 40}), {'BASE_LVL_LOOKBACK_PERC': 50}),
        'geneva': ({'gen': 'witness', 'name': 'Geneva_2019.01.10-04.45.34_FEW040-BKN070'}, None),
        'demo': ({'gen': 'demo'}, {'MSA': 10000}),
    }


PRIOR_OPS = ['run_other', 'run_deep_prms', 'same_data_other_prms', 'demo_data', 'plot', 'tmp_seed_raise', 'user_rng', 'set_reset']


def bound(tier):
    return '%d targets x (6 RNG states + %d histories of length <= %d + 5 hash seeds)' % (
        len(targets()), 1 + len(PRIOR_OPS) + len(PRIOR_OPS) ** 2 if tier == 'quick' else 1 + 7 + 49 + 343, 2 if tier == 'quick' else 3)


def cases(tier):
    out = []
    for t in targets():
        out.append({'kind': 'rng', 'target': t})
        for p in PRIOR_OPS:
            out.append({'kind': 'hist', 'target': t, 'first': p, 'depth': 2 if tier == 'quick' else 3})
    # what-if histories: the target's OWN data processed under every single-leaf deviation of the parameter menu, the target after each
    from .. import params
    ndev = len([d for d in params.deviations() if d[1] == 'call'])
    for t in targets():
        if tier == 'quick' and t in ('geneva', 'demo'):
            continue
        for lo in range(0, ndev, 16):
            out.append({'kind': 'whatif', 'target': t, 'devs': [lo, min(lo + 16, ndev)]})
    for hs in ('0', '1', '2', '4242', 'random'):
        out.append({'kind': 'hashseed', 'value': hs})
    return out


def weight(case):
    if case['kind'] == 'hashseed':
        return 100
    return 30 if case.get('target') in ('geneva', 'demo') else 5


def rng_equal(a, b):
    return a[0] == b[0] and np.array_equal(a[1], b[1]) and a[2:] == b[2:]


def build_target(name):
    spec, prms = targets()[name]
    return scenes.frame(scenes.build(spec)), prms


def run_target(name, rng_log=None):
    """Processes a target; optionally checks the global RNG state around every public call."""
    import ampycloud
    from ampycloud.data import CeiloChunk
    fr, prms = build_target(name)
    with warnings.catch_warnings():
        warnings.simplefilter('ignore')
        s0 = np.random.get_state()
        chunk = ampycloud.run(fr, prms=copy.deepcopy(prms))
        s1 = np.random.get_state()
        dig = result_digest(chunk)            # calls metar_msg at the three levels
        s2 = np.random.get_state()
        c2 = CeiloChunk(fr, prms=copy.deepcopy(prms))
        s3 = np.random.get_state()
    if rng_log is not None:
        rng_log.append(('C09.rng_untouched_run', rng_equal(s0, s1) and rng_equal(s1, s2), f'run/metar_msg on {name}'))
        rng_log.append(('C09.rng_untouched_construct', rng_equal(s2, s3), f'CeiloChunk() on {name}'))
    engaged = any(n != -1 for n in chunk.groups['ncomp'].tolist()) if len(chunk.groups) else False
    return dig, engaged


def demo_digest(rng_log=None):
    from ampycloud.utils import mocker
    s0 = np.random.get_state()
    d = mocker.canonical_demo_data()
    s1 = np.random.get_state()
    if rng_log is not None:
        rng_log.append(('C09.rng_untouched_demo', rng_equal(s0, s1), 'canonical_demo_data()'))
    return frame_digest(d)


def prior(op, rng_log, target=None):
    """One prior operation of a history."""
    import ampycloud
    from ampycloud.utils import utils
    with warnings.catch_warnings():
        warnings.simplefilter('ignore')
        if op == 'run_other':
            s0 = np.random.get_state()
            ampycloud.run(scenes.frame(scenes.build(_deckfam.D({'h': 2000., 'n': 40, 'pattern': 'halves400'}, {'h': 6000., 'n': 12}))),
                          prms={'MSA': 5000, 'MAX_HITS_OKTA0': 0, 'GROUPING_PRMS': {'height_pad_perc': 50}}).metar_msg()
            rng_log.append(('C09.rng_untouched_run', rng_equal(s0, np.random.get_state()), 'prior run'))
        elif op == 'run_deep_prms':
            s0 = np.random.get_state()
            ampycloud.run(scenes.frame(scenes.build({'gen': 'lcgdeck', 'args': list(scenes.W119[3])})),
                          prms={'LAYERING_PRMS': {'gmm_kwargs': {'delta_mul_gain': 0.1, 'scores': 'AIC'}, 'min_okta_to_split': 0},
                                'SLICING_PRMS': {'height_scale_kwargs': {'min_range': 20000}}, 'MIN_SEP_VALS': [100, 500]}).metar_msg()
            rng_log.append(('C09.rng_untouched_run', rng_equal(s0, np.random.get_state()), 'prior run with third-level per-call parameters'))
        elif op == 'same_data_other_prms':
            # a what-if run on the TARGET's own data with other parameters (same base-height floats, same counts)
            fr, prms = build_target(target)
            alt = {'MIN_SEP_VALS': [100, 1000], 'MAX_HITS_OKTA0': 0, 'MAX_HOLES_OKTA8': 5, 'BASE_LVL_LOOKBACK_PERC': 100,
                   'LAYERING_PRMS': {'gmm_kwargs': {'scores': 'AIC'}}}
            s0 = np.random.get_state()
            ampycloud.run(fr, prms=alt).metar_msg()
            alt2 = {'MIN_SEP_VALS': [2000, 2000], 'LOWESS': {'frac': 0.9}}
            ampycloud.run(fr, prms=alt2).metar_msg()
            rng_log.append(('C09.rng_untouched_run', rng_equal(s0, np.random.get_state()), 'prior what-if runs on the same data'))
        elif op == 'demo_data':
            demo_digest(rng_log)
        elif op == 'plot':
            import matplotlib
            matplotlib.use('Agg')
            from ampycloud.plots import diagnostic
            c = ampycloud.run(scenes.frame(scenes.build(_deckfam.D({'h': 1000., 'n': 30}, T=30))))
            s0 = np.random.get_state()
            diagnostic(c, upto='layers', show=False)
            rng_log.append(('C09.rng_untouched_plot', rng_equal(s0, np.random.get_state()), 'diagnostic()'))
        elif op == 'tmp_seed_raise':
            s0 = np.random.get_state()
            try:
                with utils.tmp_seed(7):
                    np.random.random(3)
                    raise KeyError('boom')
            except KeyError:
                pass
            rng_log.append(('C09.rng_untouched_tmp_seed_raise', rng_equal(s0, np.random.get_state()), 'tmp_seed() with a raising body'))
        elif op == 'user_rng':
            np.random.seed(123); np.random.normal(size=7); np.random.shuffle(list(range(10)))
        elif op == 'set_reset':
            import tempfile
            d = tempfile.mkdtemp(prefix='mc_c09_')
            p = os.path.join(d, 'p.yml')
            with open(p, 'w') as f:
                f.write('MSA: 1234\nLAYERING_PRMS:\n    gmm_kwargs:\n        scores: AIC\n')
            ampycloud.set_prms(p)
            ampycloud.reset_prms()
            os.remove(p); os.rmdir(d)
        else:
            raise ValueError(op)


RNG_ENVS = ['seed0', 'seed1', 'seedmax', 'after1000', 'cached_gauss', 'after_shuffle']


def set_rng(envname):
    if envname == 'seed0':
        np.random.seed(0)
    elif envname == 'seed1':
        np.random.seed(1)
    elif envname == 'seedmax':
        np.random.seed(2 ** 32 - 1)
    elif envname == 'after1000':
        np.random.seed(5); np.random.random(1000)
    elif envname == 'cached_gauss':
        np.random.seed(9); np.random.normal()          # leaves a cached Gaussian in the legacy state
    elif envname == 'after_shuffle':
        np.random.seed(11); np.random.shuffle(np.arange(100))


def run_case(case):
    res = {'n': 0, 'clauses': {}, 'digests': set(), 'violations': []}
    cl = res['clauses']

    def hit(c):
        cl[c] = cl.get(c, 0) + 1

    def viol(clause, detail, sub=None):
        if len(res['violations']) < 25:
            res['violations'].append({'clause': clause, 'site': detail.get('what', clause), 'detail': detail, 'sub': sub or case})

    def log_rng(rng_log, ctx, sub=None):
        for clause, ok, what in rng_log:
            hit(clause)
            if not ok:
                viol(clause, {'what': what, 'context': ctx, 'problem': 'numpy.random.get_state() differs before/after the call'}, sub)

    if case['kind'] == 'rng':
        t = case['target']
        ref, engaged = isolated(lambda: run_target(t))
        if engaged:
            hit('C09.mixture_engaged')
        if t.startswith('w119'):
            hit('C09.branch119_target')
        demo_ref = isolated(demo_digest)
        for e in RNG_ENVS:
            set_rng(e)
            log = []
            dig, _ = run_target(t, log)
            res['n'] += 1
            hit('C09.digest_equal_rng')
            if dig != ref:
                viol('C09.digest_equal_rng', {'target': t, 'rng': e, 'what': 'result differs from the pristine-process reference'})
            log_rng(log, f'{t} under RNG {e}')
            log = []
            dd = demo_digest(log)
            hit('C09.demo_data_equal')
            if dd != demo_ref:
                viol('C09.demo_data_equal', {'rng': e, 'what': 'canonical_demo_data() differs'})
            log_rng(log, f'demo data under RNG {e}')
            res['digests'].add(f'{t}|{e}')
        res['sample'] = {'kind': 'rng', 'target': t, 'envs': RNG_ENVS}
    elif case['kind'] == 'hist':
        t = case['target']
        ref, _ = isolated(lambda: run_target(t))
        hists = [[case['first']]]
        for d in range(2, case['depth'] + 1):
            hists += [[case['first']] + list(x) for x in itertools.product(PRIOR_OPS, repeat=d - 1)]
        if case['first'] == PRIOR_OPS[0]:
            hists.insert(0, [])
        if 'only_hist' in case:
            hists = [case['only_hist']]

        def one(h):
            log = []
            for op in h:
                prior(op, log, t)
            dig, _ = run_target(t, log)
            return dig, [(c, ok, w) for c, ok, w in log]
        for h in hists:
            dig, log = isolated(lambda: one(h))           # every history starts from a pristine process
            res['n'] += 1
            sub = {**{k: v for k, v in case.items() if k != 'only_hist'}, 'only_hist': h}
            hit('C09.digest_equal_history')
            if dig != ref:
                viol('C09.digest_equal_history', {'target': t, 'history': h, 'what': 'result after this history differs from the pristine-process reference'}, sub)
            log_rng(log, f'history {h} then {t}', sub)
            res['digests'].add(f'{t}|{",".join(h)}')
        res['sample'] = {'kind': 'hist', 'target': t, 'first': case['first'], 'histories': len(hists)}
    elif case['kind'] == 'whatif':
        import ampycloud
        from .. import params
        t = case['target']
        ref, _ = isolated(lambda: run_target(t))
        devs = [d for d in params.deviations() if d[1] == 'call'][case['devs'][0]:case['devs'][1]]

        def whatif(fr, prms, dd):
            with warnings.catch_warnings():
                warnings.simplefilter('ignore')
                try:
                    ampycloud.run(fr.copy(deep=True), prms=params.merge(prms or {}, dd)).metar_msg()
                except Exception:
                    pass              # (a what-if run that ampycloud refuses is still a legitimate earlier event)

        def one(i):
            # a pristine process: ONE what-if run on the target's data, then the target (the target must not have run before: a defect
            # that parks results keyed by the data would then find its own, correct, entries)
            fr, prms = build_target(t)
            whatif(fr, prms, devs[i][2])
            return run_target(t)[0]

        def all_then_target():
            fr, prms = build_target(t)
            for _n, _r, dd in devs:
                whatif(fr, prms, dd)
            return run_target(t)[0]
        bad = None
        for i in ([case['stop_at']] if 'stop_at' in case else range(len(devs))):
            res['n'] += 2
            cl['C09.digest_equal_after_whatif'] = cl.get('C09.digest_equal_after_whatif', 0) + 1
            if isolated(lambda: one(i)) != ref:
                bad = (i, devs[i][0])
                break
        if bad is None and 'stop_at' not in case:
            res['n'] += len(devs) + 1
            cl['C09.digest_equal_after_whatif'] = cl.get('C09.digest_equal_after_whatif', 0) + 1
            if isolated(all_then_target) != ref:
                bad = (None, 'all %d what-if runs of this case, one after the other' % len(devs))
        if bad is not None:
            sub = {k: v for k, v in case.items() if k != 'stop_at'}
            if bad[0] is not None:
                sub['stop_at'] = bad[0]
            viol('C09.digest_equal_after_whatif', {'target': t, 'what': 'result differs from the pristine-process reference after a what-if run on the same data',
                                                   'what_if_deviation': bad[1]}, sub)
        res['digests'].add(f'{t}|whatif{case["devs"]}')
        res['sample'] = {'kind': 'whatif', 'target': t, 'deviations': [d[0] for d in devs]}
    else:
        refs = {t: isolated(lambda t=t: run_target(t))[0] for t in targets()}
        envv = dict(os.environ)
        envv['PYTHONHASHSEED'] = case['value']
        envv['MC_PINNED'] = '1'
        code = ("import sys, json; sys.path.insert(0, %r); from mc import env; env.import_ampycloud(); from mc.props import C09; "
                "print('DIGESTS ' + json.dumps({t: C09.run_target(t)[0] for t in C09.targets()}))" % env.VERIF_ROOT)
        p = subprocess.run([sys.executable, '-c', code], env=envv, capture_output=True, text=True, cwd=env.VERIF_ROOT)
        line = [l for l in p.stdout.splitlines() if l.startswith('DIGESTS ')]
        if not line:
            res['harness_error'] = 'child interpreter failed: ' + p.stderr[-500:]
        else:
            import json
            got = json.loads(line[0][8:])
            for t in refs:
                res['n'] += 1
                hit('C09.digest_equal_hashseed')
                if got.get(t) != refs[t]:
                    viol('C09.digest_equal_hashseed', {'target': t, 'PYTHONHASHSEED': case['value'], 'what': 'result differs between interpreters'})
                res['digests'].add(f'{t}|hashseed={case["value"]}')
        res['sample'] = {'kind': 'hashseed', 'value': case['value']}
    res['digests'] = sorted(res['digests'])
    return res
