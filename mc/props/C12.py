"""C12 - all documented ways of setting parameters are equivalent; reset restores all.

E1/E3: every parameter leaf x every alternative value of its documented-legal menu (deviation bound 1;
thorough adds pairs), through the three routes (per-call dict, in-place edit of the global dictionary,
YAML file via set_prms) on scenes MEASURED to be sensitive to that leaf; per-call runs under a poisoned
global; every stage executed against a trip-wire global that raises on ANY access; unknown keys at
every depth; reset_prms over subsets of the 14 top-level names after poisoning every leaf in place.
"""
import copy
import itertools
import os
import tempfile
import warnings

from . import _deckfam
from .. import env, params, pipeline, scenes
from ..digest import result_digest, obj_digest

TITLE = 'parameter routes equivalent; reset restores all'
EXPLORER = 'E1'
CLAUSES = ['C12.routes_equal', 'C12.override_wins', 'C12.no_global_read', 'C12.unknown_key', 'C12.reset_all', 'C12.reset_named',
           'C12.sensitive_leaf', 'C12.yaml_route', 'C12.global_route', 'C12.routes_equal_prior']
RULE = ('ROUTES: one case per deviation (leaf=value from mc/params.py): 6 scenes x {default, per-call, global edit, YAML+set_prms, per-call '
        'under a poisoned global}; TRIPWIRE: one case per scene: every d<=1 configuration run with dynamic.AMPYCLOUD_PRMS swapped for a '
        'mapping that raises on any access after construction; UNKNOWN: unknown keys at depth 1-3 per call and via YAML; RESET: subsets of '
        'the 14 top-level names after in-place poisoning of every leaf. distinct_nontrivial = distinct result digests over all routes')
ASSUMPTIONS = ['a leaf to which none of the scenes is sensitive is reported in evidence (insensitive_leaves), not counted as passed',
               'deviations that need NEW keys (kwargs of another scaling mode) exist only through the global-edit route and are not compared across routes',
               'MPL_STYLE is only read by the plotting decorator (documented) and is not exercised here']


class TripWire(dict):
    def _trip(self, *a, **k):
        raise RuntimeError('TRIPWIRE: the live global parameter dictionary was accessed by a processing step')
    __getitem__ = get = items = keys = values = __iter__ = __contains__ = __len__ = copy = setdefault = _trip


def scene_set():
    D = _deckfam.D
    return [
        ('merge+split', D({'h': 1000., 'n': 40}, {'h': 1240., 'n': 40}, {'h': 2400., 'n': 40, 'pattern': 'halves400'}, {'h': 9000., 'n': 6, 'where': 'first'})),
        ('2c-excl', D({'h': 1000., 'n': 16}, {'h': 1200., 'n': 16, 'ceilo': 0}, {'h': 1300., 'n': 16, 'ceilo': 0}, T=16, ceilos=['a', 'b'], ceilo_offsets=[0., -200.])),
        ('2c-fallback', D({'h': 1000., 'n': 30, 'pattern': 'jitter', 'ceilo': 1}, {'h': 1060., 'n': 3, 'ceilo': 0}, {'h': 3000., 'n': 30}, T=30, ceilos=['a', 'b'])),
        ('ramp+flat', D({'h': 1000., 'n': 40, 'pattern': 'rampup'}, {'h': 1440., 'n': 38})),
        ('w119', {'gen': 'lcgdeck', 'args': list(scenes.W119[1])}),
        ('modes', D({'h': 1000., 'n': 60, 'pattern': 'modes:125:125'}, {'h': 12000., 'n': 20, 'pattern': 'bimodal400'}, T=60)),
        ('2c-near', D({'h': 1000., 'n': 40, 'pattern': 'rampup'}, {'h': 3000., 'n': 39, 'ceilo': 0}, {'h': 3000., 'n': 40, 'ceilo': 1}, ceilos=['a', 'b'], ceilo_offsets=[0., 30.])),
        ('overlap', D({'h': 1000., 'n': 40, 'pattern': 'rampup'}, {'h': 1210., 'n': 40, 'pattern': 'rampup'}, {'h': 1500., 'n': 12, 'pattern': 'jitter', 'where': 'spread'})),
        ('aic-bic', {'gen': 'lcgbimodal', 'args': list(scenes.WAIC[1])}),
        ('geneva-unstable', {'gen': 'witness', 'name': 'Geneva_2019.01.10-04.45.34_FEW040-BKN070'}),
        ('kloten', {'gen': 'witness', 'name': 'Kloten_2020.12.24-01.20.00_FEW018-BKN051'}),
    ]


# context a leaf needs in order to matter at all (passed per call in every route)
CONTEXT = {'MSA_HIT_BUFFER': {'MSA': 2000}}


def bound(tier):
    return '%d deviations (d<=1) x 11 scenes x 5 routes; trip-wire: %d configurations x 11 scenes; reset: %s' % (
        len(params.deviations()), len(params.deviations()) + 4,
        'subsets of size <=2 and >=12 of 14 names' if tier == 'quick' else 'all 16 384 subsets of 14 names')


def cases(tier):
    out = []
    for i, (name, route, dev) in enumerate(params.deviations()):
        out.append({'kind': 'ROUTES', 'dev': name, 'route': route, 'cfg': dev, 'tier': tier})
    for name, spec in scene_set():
        nparts = 8 if spec.get('gen') == 'witness' else 2
        if spec.get('gen') == 'witness' and tier == 'quick':
            out.append({'kind': 'TRIPWIRE', 'scene_name': name, 'part': 0, 'nparts': 6})      # every 6th configuration only
            continue
        for part in range(nparts):
            out.append({'kind': 'TRIPWIRE', 'scene_name': name, 'part': part, 'nparts': nparts})
    out.append({'kind': 'UNKNOWN'})
    names = 14
    if tier == 'quick':
        sizes = [0, 1, 2, 12, 13, 14]
        out += [{'kind': 'RESET', 'sizes': [k]} for k in sizes]
    else:
        out += [{'kind': 'RESET', 'sizes': [k]} for k in range(15)]
    return out


def weight(case):
    return {'ROUTES': 5 if not case.get('dev', '').startswith(('LAYERING', 'GROUPING', 'gmm', 'LOWESS')) else 30, 'TRIPWIRE': 15, 'UNKNOWN': 3, 'RESET': 10}[case['kind']]


def write_yaml(d, path):
    from ruamel.yaml import YAML
    y = YAML(typ='safe')
    y.default_flow_style = False
    with open(path, 'w') as f:
        y.dump(d, f)


def poison_value(v):
    if isinstance(v, bool):
        return not v
    if isinstance(v, (int, float)):
        return v * 3 + 7
    if isinstance(v, str):
        return {'BIC': 'AIC', 'delta': 'prob', 'minmax-scale': 'minmax-scale', 'base': 'base'}.get(v, v)
    if v is None:
        return 4321
    if isinstance(v, list):
        return [poison_value(x) for x in v] if v else ['zz']
    return v


def poison_in_place(d):
    """Mutate every leaf of the nested dict in place (nested dicts and lists keep their identity)."""
    for k, v in d.items():
        if isinstance(v, dict):
            poison_in_place(v)
        elif isinstance(v, list):
            v[:] = poison_value(v)
        else:
            d[k] = poison_value(v)


def run_digest(rows, prms):
    r = pipeline.run(rows, prms)
    if not r.ok:
        return ('EXC', r.exc_type, r.site)
    return ('OK', result_digest(r.chunk))


def run_case(case):
    import ampycloud
    from ampycloud import dynamic
    from ampycloud.errors import AmpycloudWarning
    res = {'n': 0, 'clauses': {}, 'digests': set(), 'violations': [], 'extra': {}}
    cl = res['clauses']

    def hit(c, k=1):
        cl[c] = cl.get(c, 0) + k

    def viol(clause, detail, site='routes'):
        if len(res['violations']) < 30:
            res['violations'].append({'clause': clause, 'site': site, 'detail': detail})

    defaults = pipeline.default_prms()
    tmpd = tempfile.mkdtemp(prefix='mc_c12_')
    try:
        ampycloud.reset_prms()
        if case['kind'] == 'ROUTES':
            dev, cfg = case['dev'], case['cfg']
            sens = 0
            heavy = dev.startswith(('LAYERING_PRMS', 'GROUPING_PRMS', 'gmm:', 'LOWESS')) or case.get('tier') != 'quick'
            for sname, spec in scene_set():
                if spec.get('gen') == 'witness' and (not heavy or dev.startswith('SLICING_PRMS.distance_threshold=1e-06')):
                    continue        # (one slice per hit on a 400-hit scene takes minutes per run; covered on the deck scenes)
                rows = scenes.build(spec)
                ref = run_digest(rows, None); res['n'] += 1
                if case['route'] == 'global':
                    hit('C12.global_route')
                    pipeline.set_global(cfg)
                    try:
                        g1 = run_digest(rows, None); res['n'] += 1
                    finally:
                        ampycloud.reset_prms()
                    after = run_digest(rows, None); res['n'] += 1
                    hit('C12.reset_all')
                    if after != ref:
                        viol('C12.reset_all', {'deviation': dev, 'scene': sname, 'what': 'results differ after global edit + reset_prms()'})
                    if g1 != ref:
                        sens += 1
                    res['digests'].add(str(g1))
                    continue
                ctx = CONTEXT.get(dev.split('=')[0])
                if ctx:
                    ref = run_digest(rows, ctx); res['n'] += 1
                # route A: per call
                a = run_digest(rows, params.merge(ctx or {}, cfg)); res['n'] += 1
                # route B: in-place edit of the global
                pipeline.set_global(cfg)
                try:
                    b = run_digest(rows, ctx); res['n'] += 1
                finally:
                    ampycloud.reset_prms()
                # route C: YAML + set_prms
                yp = os.path.join(tmpd, 'p.yml')
                write_yaml(cfg, yp)
                with warnings.catch_warnings():
                    warnings.simplefilter('ignore')
                    ampycloud.set_prms(yp)
                try:
                    c = run_digest(rows, ctx); res['n'] += 1
                finally:
                    ampycloud.reset_prms()
                hit('C12.routes_equal'); hit('C12.yaml_route'); hit('C12.global_route')
                if not (a == b == c):
                    viol('C12.routes_equal', {'deviation': dev, 'scene': sname, 'per_call': a[:2] if a[0] == 'EXC' else a[1][:10], 'global_edit': b[:2] if b[0] == 'EXC' else b[1][:10],
                                              'yaml': c[:2] if c[0] == 'EXC' else c[1][:10], 'equal': {'A=B': a == b, 'A=C': a == c}})
                if a != ref:
                    sens += 1
                # per-call run under a poisoned global (every leaf the call overrides holds another value)
                poisoned = copy.deepcopy(cfg)
                poison_in_place(poisoned)
                # the poisoned global IS the dictionary object that existed at import time (so that a stale
                # `from .dynamic import AMPYCLOUD_PRMS` alias reads the poison as well)
                orig = env.ORIG_PRMS
                orig.clear(); orig.update(copy.deepcopy(defaults))
                dynamic.AMPYCLOUD_PRMS = orig
                pipeline.set_global(poisoned)
                try:
                    p = run_digest(rows, params.merge(ctx or {}, cfg)); res['n'] += 1
                finally:
                    orig.clear(); orig.update(copy.deepcopy(defaults))
                    ampycloud.reset_prms()
                hit('C12.override_wins')
                if p != a:
                    viol('C12.override_wins', {'deviation': dev, 'scene': sname, 'global_held': poisoned,
                                               'what': 'a per-call run depends on the value the global holds for a key it overrides'})
                # the same three routes on top of a NON-default prior global (the leaf holds another value beforehand): per-call,
                # in-place edit and YAML must still agree - in particular for values such as None / null
                def with_prior(route):
                    orig2 = env.ORIG_PRMS
                    pipeline.set_global(poisoned)
                    try:
                        if route == 'A':
                            return run_digest(rows, params.merge(ctx or {}, cfg))
                        if route == 'B':
                            pipeline.set_global(cfg)
                            return run_digest(rows, ctx)
                        with warnings.catch_warnings():
                            warnings.simplefilter('ignore')
                            ampycloud.set_prms(yp)
                        return run_digest(rows, ctx)
                    finally:
                        ampycloud.reset_prms()
                do_prior = case.get('tier') != 'quick' or sname in ('merge+split', '2c-near', 'overlap')
                pa, pb, pc = (with_prior('A'), with_prior('B'), with_prior('C')) if do_prior else (None, None, None)
                if do_prior:
                    res['n'] += 3
                    hit('C12.routes_equal_prior')
                if not (pa == pb == pc):
                    viol('C12.routes_equal', {'deviation': dev, 'scene': sname, 'prior_global_held': poisoned,
                                              'equal': {'per_call=global_edit': pa == pb, 'per_call=yaml': pa == pc},
                                              'what': 'the three routes disagree when the global held another value beforehand'})
                # and the reset brought everything back
                after = run_digest(rows, ctx); res['n'] += 1
                hit('C12.reset_all')
                if after != ref or dynamic.AMPYCLOUD_PRMS != defaults:
                    viol('C12.reset_all', {'deviation': dev, 'scene': sname, 'what': 'defaults not restored after reset_prms()',
                                           'global_equals_packaged_yaml': dynamic.AMPYCLOUD_PRMS == defaults})
                res['digests'].update([str(a), str(ref)])
            if sens:
                hit('C12.sensitive_leaf')
            res['extra']['insensitive_deviations'] = 0 if sens else 1
            res['sample'] = {'deviation': dev, 'sensitive_scenes': sens}
            if not sens:
                res['sample']['note'] = 'INSENSITIVE on all scenes: route equivalence for this leaf is not evidenced by results'
                res['notes'] = [f'insensitive: {dev}']
        elif case['kind'] == 'TRIPWIRE':
            from ampycloud.data import CeiloChunk
            spec = dict(scene_set())[case['scene_name']]
            rows = scenes.build(spec)
            cfgs = [(n, c) for n, r, c in params.configs(1) if r == 'call']
            cfgs += [('excl-b', {'EXCLUDE_FOR_BASE_HEIGHT_CALC': ['b'], 'MAX_HITS_OKTA0': 5}), ('excl-b+msa', {'EXCLUDE_FOR_BASE_HEIGHT_CALC': ['b'], 'MSA': 2000, 'MAX_HITS_OKTA0': 1}),
                     ('msa+buffer', {'MSA': 1100, 'MSA_HIT_BUFFER': 50}), ('lookback+perc', {'BASE_LVL_LOOKBACK_PERC': 30, 'BASE_LVL_HEIGHT_PERC': 50})]
            cfgs = cfgs[case.get('part', 0)::case.get('nparts', 1)]
            for cname, cfg in cfgs:
                with warnings.catch_warnings():
                    warnings.simplefilter('ignore')
                    ref = run_digest(rows, cfg); res['n'] += 1
                    chunk = CeiloChunk(scenes.frame(rows), prms=copy.deepcopy(cfg) or None)
                    real = dynamic.AMPYCLOUD_PRMS
                    dynamic.AMPYCLOUD_PRMS = TripWire()
                    # every leaf of the import-time dictionary object is poisoned meanwhile (stale aliases read poison)
                    orig = env.ORIG_PRMS
                    if orig is not real:
                        orig.clear(); orig.update(copy.deepcopy(defaults)); poison_in_place(orig)
                    try:
                        chunk.find_slices(); chunk.find_groups(); chunk.find_layers()
                        for w in pipeline.LEVELS:
                            chunk.metar_msg(w)
                        got = ('OK', result_digest(chunk))
                    except Exception as e:
                        got = ('EXC', type(e).__name__, str(e)[:120], pipeline.innermost_ampycloud_frame(e.__traceback__))
                    finally:
                        dynamic.AMPYCLOUD_PRMS = real
                        if orig is not real:
                            orig.clear(); orig.update(copy.deepcopy(defaults))
                    res['n'] += 1
                hit('C12.no_global_read')
                if got != ref and not (got[0] == 'EXC' and ref[0] == 'EXC' and got[1] == ref[1]):
                    viol('C12.no_global_read', {'config': cname, 'scene': case['scene_name'], 'with_tripwire_global': got if got[0] == 'EXC' else 'different digest',
                                                'reference': ref if ref[0] == 'EXC' else 'ok'}, site=got[3] if got[0] == 'EXC' else 'digest')
                res['digests'].add(str(ref))
            res['sample'] = {'scene': case['scene_name'], 'configs': len(cfgs)}
        elif case['kind'] == 'UNKNOWN':
            rows = scenes.build(scene_set()[0][1])
            ref = run_digest(rows, {'MSA': 5000})
            variants = [
                ({'MSA': 5000, 'FOO': 1}, 1), ({'MSA': 5000, 'LOWESS': {'bar': 2}}, 1), ({'MSA': 5000, 'LAYERING_PRMS': {'gmm_kwargs': {'nope': 3}}}, 1),
                ({'MSA': 5000, 'FOO': {'a': {'b': 1}}, 'SLICING_PRMS': {'height_scale_kwargs': {'scale': 5}, 'zz': 0}}, 3),
                ({'MSA': 5000, 'msa': 1, 'Msa': 2, 'GROUPING_PRMS': {'DT_SCALE': 9}}, 3),
            ]

            def key_tree(d):
                return {k: key_tree(v) if isinstance(v, dict) else None for k, v in d.items()}
            for prm, n_unknown in variants:
                r = pipeline.run(rows, prm, keep_warnings=True); res['n'] += 1
                hit('C12.unknown_key')
                if not r.ok:
                    viol('C12.unknown_key', {'prms': prm, 'raised': f'{r.exc_type}'}); continue
                unk = [m for (cat, m) in r.warnings if cat == 'AmpycloudWarning' and 'unknown' in m.lower()]
                if len(unk) != n_unknown or key_tree(r.chunk.prms) != key_tree(defaults) or ('OK', result_digest(r.chunk)) != ref \
                        or dynamic.AMPYCLOUD_PRMS != defaults:
                    viol('C12.unknown_key', {'prms': prm, 'unknown_key_warnings': unk, 'expected_warnings': n_unknown,
                                             'keys_added': key_tree(r.chunk.prms) != key_tree(defaults), 'result_changed': ('OK', result_digest(r.chunk)) != ref})
            # via YAML
            yp = os.path.join(tmpd, 'u.yml')
            write_yaml({'MSA': 5000, 'FOO': 1, 'LOWESS': {'bar': 2}}, yp)
            with warnings.catch_warnings(record=True) as wl:
                warnings.simplefilter('always')
                ampycloud.set_prms(yp)
            unk = [str(w.message) for w in wl if issubclass(w.category, AmpycloudWarning) and 'unknown' in str(w.message).lower()]
            hit('C12.unknown_key')
            exp = copy.deepcopy(defaults); exp['MSA'] = 5000
            if len(unk) != 2 or dynamic.AMPYCLOUD_PRMS != exp:
                viol('C12.unknown_key', {'route': 'yaml', 'warnings': unk, 'global_as_expected': dynamic.AMPYCLOUD_PRMS == exp})
            y = run_digest(rows, None); res['n'] += 1
            if y != ref:
                viol('C12.unknown_key', {'route': 'yaml', 'what': 'result differs from the per-call run with the same known keys'})
            ampycloud.reset_prms()
            res['sample'] = {'unknown_key_variants': len(variants) + 1}
        else:   # RESET
            names = list(defaults.keys())
            for k in case['sizes']:
                for subset in itertools.combinations(names, k):
                    ampycloud.reset_prms()
                    poison_in_place(dynamic.AMPYCLOUD_PRMS)
                    poisoned = copy.deepcopy(dynamic.AMPYCLOUD_PRMS)
                    if poisoned == defaults:
                        res['harness_error'] = 'poisoning did not change the global'
                    arg_forms = [list(subset)]
                    if k == 1:
                        arg_forms.append(subset[0])
                    if k == len(names):
                        arg_forms.append(None)
                    for arg in arg_forms:
                        ampycloud.reset_prms()
                        poison_in_place(dynamic.AMPYCLOUD_PRMS)
                        try:
                            ampycloud.reset_prms(arg)
                        except Exception as e:
                            viol('C12.reset_named', {'which': arg, 'raised': repr(e)[:200]}, site='reset_prms'); continue
                        res['n'] += 1
                        exp = copy.deepcopy(poisoned)
                        for nme in subset:
                            exp[nme] = copy.deepcopy(defaults[nme])
                        hit('C12.reset_all' if k == len(names) else 'C12.reset_named')
                        if dynamic.AMPYCLOUD_PRMS != exp:
                            bad = [n for n in names if dynamic.AMPYCLOUD_PRMS.get(n) != exp[n]]
                            viol('C12.reset_all' if k == len(names) else 'C12.reset_named',
                                 {'which': arg, 'keys_wrong': bad, 'got': {n: dynamic.AMPYCLOUD_PRMS.get(n) for n in bad[:3]}, 'expected': {n: exp[n] for n in bad[:3]}},
                                 site='reset_prms')
                        res['digests'].add(obj_digest([sorted(subset)]))
                        # ... and once more WITHOUT a full reset in between: poison in place again, reset the same names again
                        if arg is not None:
                            poison_in_place(dynamic.AMPYCLOUD_PRMS)
                            again = copy.deepcopy(dynamic.AMPYCLOUD_PRMS)
                            ampycloud.reset_prms(arg)
                            res['n'] += 1
                            exp2 = again
                            for nme in subset:
                                exp2[nme] = copy.deepcopy(defaults[nme])
                            hit('C12.reset_named')
                            if dynamic.AMPYCLOUD_PRMS != exp2:
                                bad = [n for n in names if dynamic.AMPYCLOUD_PRMS.get(n) != exp2[n]]
                                viol('C12.reset_named', {'which': arg, 'history': 'reset(which); in-place edits; reset(which) again', 'keys_wrong': bad,
                                                         'got': {n: dynamic.AMPYCLOUD_PRMS.get(n) for n in bad[:3]}, 'expected': {n: exp2[n] for n in bad[:3]}},
                                     site='reset_prms')
            # a fresh reset after all that restores the packaged defaults
            ampycloud.reset_prms()
            if dynamic.AMPYCLOUD_PRMS != defaults:
                viol('C12.reset_all', {'what': 'reset_prms() after in-place poisoning does not restore the packaged YAML', 'diff_keys': [n for n in names if dynamic.AMPYCLOUD_PRMS.get(n) != defaults[n]]}, site='reset_prms')
            res['sample'] = {'reset_subset_sizes': case['sizes'], 'calls': res['n']}
    finally:
        ampycloud.reset_prms()
        for fn in os.listdir(tmpd):
            os.remove(os.path.join(tmpd, fn))
        os.rmdir(tmpd)
    res['digests'] = sorted(res['digests'])
    return res


def finalize(tier):
    return {}
