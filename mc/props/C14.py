"""C14 - any order of stage calls raises AmpycloudError or gives the canonical result.

E2: explicit-state breadth-first search over call histories on a LIVE CeiloChunk. Every transition
deep-copies the parent's live object and calls the real method; states are merged by a bit-exact digest
of ALL mutable state of the chunk (data incl. id columns, three tables, flag, parameters), so reaching
a fixpoint decides the property for call sequences of ANY length on that scene. The merge is
cross-checked: for every state reached by two histories both are replayed from scratch on fresh
chunks and their outcomes under every operation compared.
Oracle: a protocol table may_refuse(model state, op) + comparison with the canonical run.
"""
import copy
import warnings

from . import _deckfam
from .. import pipeline, scenes
from ..digest import chunk_state_digest, table_digest, frame_digest, obj_digest

TITLE = 'any order of stage calls'
EXPLORER = 'E2'
CLAUSES = ['C14.refusal_legit', 'C14.refusal_pure', 'C14.only_ampycloud_error', 'C14.tables_canonical', 'C14.ids_canonical',
           'C14.msg_canonical', 'C14.idempotent', 'C14.merge_scene', 'C14.split_scene', 'C14.refused_regroup_after_layers',
           'C14.merge_sound']
RULE = ('one case per scene (hand-made merge / split / single / empty / bundle scenes, deck scenes, reference scenes); inside it BFS over the '
        'nine operations find_slices, find_groups, find_layers, metarize(w), metar_msg(w) for w in slices/groups/layers until no new state '
        'digest appears (fixpoint) or depth 8. states = distinct chunk digests, transitions = real method calls judged, '
        'traces_validated_against_impl = histories replayed from scratch to validate state merging')
ASSUMPTIONS = ['equal state digest implies equal futures (determinism of the code under test; cross-checked by replay)',
               'may_refuse is permissive: a call that the protocol allows to refuse may also succeed, if the result is canonical']

OPS = ['find_slices', 'find_groups', 'find_layers', 'metarize:slices', 'metarize:groups', 'metarize:layers',
       'msg:slices', 'msg:groups', 'msg:layers']
MAX_DEPTH = 8


def scene_list(tier):
    D = _deckfam.D
    rows = lambda r: {'gen': 'rows', 'rows': r}
    sc = [
        ('merge20', rows([['a', 0.0 - 15. * (19 - i), 1000. if i % 2 == 0 else 1240., 1] for i in range(20)])),
        ('split', D({'h': 1000., 'n': 60, 'pattern': 'bimodal400'}, T=60)),
        ('merge+split', D({'h': 1000., 'n': 40}, {'h': 1240., 'n': 40}, {'h': 2400., 'n': 40, 'pattern': 'halves400'})),
        ('single', D({'h': 1000., 'n': 20}, T=20)),
        ('empty', rows([['a', -15., None, 0], ['a', 0., None, 0]])),
        ('one-hit', rows([['a', -15., None, 0], ['a', 0., 1000., 1]])),
    ]
    sc += _deckfam.overlap_scenes(tier) + _deckfam.split_scenes(tier) + _deckfam.chain_scenes(tier) \
        + _deckfam.two_ceilo_scenes(tier)[::2] + _deckfam.w119_scenes() + _deckfam.two_deck_scenes('quick', rich=False)[::2] \
        + _deckfam.degenerate_scenes(tier) + _deckfam.edge_scenes(tier)
    if tier != 'quick':
        sc += _deckfam.two_deck_scenes(tier) + _deckfam.two_ceilo_scenes(tier)
    out = [(n, s, {}) for n, s in sc]
    out.append(('split+msa', D({'h': 1000., 'n': 60, 'pattern': 'bimodal400'}, {'h': 9000., 'n': 20}, T=60), {'MSA': 3000., 'MSA_HIT_BUFFER': 0.}))
    # only zero-okta slices that merge into a reportable group, at / above / below an MSA (NCD vs NSC decided per level)
    for msa in (4900., 5100., 5300., 6000.):
        for buf in (1500., 0.):
            out.append(('zero-okta-merge:%g:%g' % (msa, buf), rows([['a', 0.0 - 15. * i, 5000. if i % 2 == 0 else 5240., 1] for i in range(6)]
                                                                       + [['a', -120., None, 0], ['a', -135., 9000., 1]]),
                        {'MSA': msa, 'MSA_HIT_BUFFER': buf}))
    wn = scenes.witness_names()
    for name in wn:
        out.append((name, {'gen': 'witness', 'name': name}, {}))
    out.append(('demo', {'gen': 'demo'}, {'MSA': 10000}))
    return out


def bound(tier):
    return 'BFS to fixpoint (depth cap %d) over 9 operations on %d scenes' % (MAX_DEPTH, len(scene_list(tier)))


def cases(tier):
    return [{'name': n, 'scene': s, 'prms': p} for n, s, p in scene_list(tier)]


def weight(case):
    return 10 if case['scene'].get('gen') in ('witness', 'demo') else 1


def apply(chunk, op):
    """Calls the real method. Returns ('ok', value) or ('exc', exception)."""
    try:
        with warnings.catch_warnings():
            warnings.simplefilter('ignore')
            if op.startswith('find_'):
                return ('ok', getattr(chunk, op)())
            kind, w = op.split(':')
            if kind == 'metarize':
                return ('ok', chunk.metarize(w))
            return ('ok', chunk.metar_msg(w))
    except Exception as e:
        return ('exc', e)


def may_refuse(model, op):
    has_s, has_g, has_l = model
    if op == 'find_slices':
        return False
    if op == 'find_groups':
        return (not has_s) or has_l
    if op == 'find_layers':
        return not has_g
    kind, w = op.split(':')
    has = {'slices': has_s, 'groups': has_g, 'layers': has_l}[w]
    if kind == 'metarize':
        return (not has) or (w == 'groups' and has_l)
    return not has


def next_model(model, op):
    has_s, has_g, has_l = model
    if op == 'find_slices':
        return (True, has_g, has_l)
    if op == 'find_groups':
        return (has_s, True, has_l)
    if op == 'find_layers':
        return (has_s, has_g, True)
    return model


def fresh(case):
    from ampycloud.data import CeiloChunk
    with warnings.catch_warnings():
        warnings.simplefilter('ignore')
        return CeiloChunk(scenes.frame(scenes.build(case['scene'])), prms=copy.deepcopy(case['prms']) or None)


def canonical(case):
    c = fresh(case)
    snap = {'slices': set(), 'groups': set(), 'layers': set()}
    c.find_slices(); snap['slices'].add(table_digest(c._slices))
    c.find_groups(); snap['slices'].add(table_digest(c._slices)); snap['groups'].add(table_digest(c._groups))
    c.find_layers(); snap['groups'].add(table_digest(c._groups)); snap['layers'].add(table_digest(c._layers))
    ids = {k: frame_digest(c.data[[k]], with_index=False, with_dtype=False) for k in ('slice_id', 'group_id', 'layer_id')}
    msgs = {w: c.metar_msg(w) for w in pipeline.LEVELS}
    base = frame_digest(c.data[scenes.COLS], with_index=False)
    return c, snap, ids, msgs, base


def run_case(case):
    from ampycloud.errors import AmpycloudError
    res = {'n': 0, 'clauses': {}, 'digests': set(), 'violations': [], 'extra': {'states': 0, 'transitions': 0, 'traces': 0}}
    cl = res['clauses']

    def hit(c):
        cl[c] = cl.get(c, 0) + 1

    def viol(clause, hist, op, detail):
        if len(res['violations']) < 30:
            res['violations'].append({'clause': clause, 'site': op, 'detail': {'history': hist, 'op': op, 'scene': case['name'], **detail},
                                      'sub': {**{k: v for k, v in case.items() if k != 'only_history'}, 'only_history': hist + [op]}})

    canon, snap, cids, cmsgs, cbase = canonical(case)
    final_groups = table_digest(canon._groups)
    if canon.n_slices > canon.n_groups:
        hit('C14.merge_scene')
    if any(n > 1 for n in canon.groups['ncomp'].tolist()):
        hit('C14.split_scene')

    def judge(hist, op, model, pre, post_chunk, outcome):
        res['extra']['transitions'] += 1
        res['n'] += 1
        kind, val = outcome
        post = chunk_state_digest(post_chunk)
        if kind == 'exc':
            hit('C14.only_ampycloud_error')
            if not isinstance(val, AmpycloudError):
                viol('C14.only_ampycloud_error', hist, op, {'raised': f'{type(val).__name__}: {str(val)[:200]}'})
            hit('C14.refusal_legit')
            if not may_refuse(model, op):
                viol('C14.refusal_legit', hist, op, {'raised': f'{type(val).__name__}: {str(val)[:200]}', 'model_state(has slices,groups,layers)': model})
            if op == 'find_groups' and model[2]:
                hit('C14.refused_regroup_after_layers')
            hit('C14.refusal_pure')
            if post != pre:
                viol('C14.refusal_pure', hist, op, {'what': 'a refused call changed the chunk (tables / per-hit assignments)'})
            return post, model
        m2 = next_model(model, op)
        c = post_chunk
        hit('C14.tables_canonical')
        # a stage / metarize call that did not raise must have produced its table
        done_w = {'find_slices': 'slices', 'find_groups': 'groups', 'find_layers': 'layers'}.get(op) or (op[9:] if op.startswith('metarize:') else None)
        if done_w and getattr(c, '_' + done_w) is None:
            viol('C14.tables_canonical', hist, op, {'which': done_w, 'what': 'the call returned without raising but produced no table'})
        # once layers exist the groups table must be the final one (sub-component counts kept): the layering is never discarded
        if m2[2] and c._groups is not None and table_digest(c._groups) != final_groups:
            viol('C14.tables_canonical', hist, op, {'which': 'groups', 'what': 'groups table lost the layering information (ncomp) although layers exist',
                                                    'ncomp': c._groups['ncomp'].tolist(), 'canonical_ncomp': canon.groups['ncomp'].tolist()})
        for w in pipeline.LEVELS:
            tab = getattr(c, '_' + w)
            if tab is not None and table_digest(tab) not in snap[w]:
                viol('C14.tables_canonical', hist, op, {'which': w, 'codes': tab['code'].tolist() if 'code' in tab else None,
                                                        'canonical_codes': getattr(canon, w)['code'].tolist()})
        hit('C14.ids_canonical')
        for k in ('slice_id', 'group_id', 'layer_id'):
            if k in c.data.columns and frame_digest(c.data[[k]], with_index=False, with_dtype=False) != cids[k]:
                viol('C14.ids_canonical', hist, op, {'column': k, 'values': sorted(set(map(str, c.data[k].tolist())))[:12],
                                                     'canonical': sorted(set(map(str, canon.data[k].tolist())))[:12]})
        if frame_digest(c.data[scenes.COLS], with_index=False) != cbase:
            viol('C14.ids_canonical', hist, op, {'what': 'hit columns (ceilo, dt, height, type) changed'})
        hit('C14.msg_canonical')
        if op.startswith('msg:') and val != cmsgs[op[4:]]:
            viol('C14.msg_canonical', hist, op, {'returned': val, 'canonical': cmsgs[op[4:]]})
        for w in pipeline.LEVELS:
            if getattr(c, '_' + w) is not None:
                try:
                    mm = c.metar_msg(w)
                except Exception as e:
                    mm = 'EXC:' + type(e).__name__
                if mm != cmsgs[w]:
                    viol('C14.msg_canonical', hist, op, {'which': w, 'message_now': mm, 'canonical': cmsgs[w]})
        if hist and hist[-1] == op:
            hit('C14.idempotent')
        return post, m2

    # ---- replay of one history (used by ./check replay)
    if 'only_history' in case:
        c = fresh(case); model = (False, False, False)
        hist = []
        for op in case['only_history']:
            pre = chunk_state_digest(c)
            out = apply(c, op)
            _, model = judge(list(hist), op, model, pre, c, out)
            hist.append(op)
        res['extra']['states'] = 1
        res['digests'] = []
        return res

    c0 = fresh(case)
    d0 = chunk_state_digest(c0)
    seen = {d0: ([], (False, False, False))}
    second = {}
    frontier = [([], c0, (False, False, False), d0)]
    closed = False
    depth = 0
    while frontier and depth < MAX_DEPTH:
        nxt = []
        for hist, chunk, model, pre in frontier:
            for op in OPS:
                c2 = copy.deepcopy(chunk)
                out = apply(c2, op)
                post, m2 = judge(hist, op, model, pre, c2, out)
                if post not in seen:
                    seen[post] = (hist + [op], m2)
                    nxt.append((hist + [op], c2, m2, post))
                elif post not in second and seen[post][0] != hist + [op] and post != pre:
                    second[post] = hist + [op]
        frontier = nxt
        depth += 1
    closed = not frontier
    res['extra']['states'] = len(seen)
    res['closed'] = closed
    # ---- merge soundness: two histories leading to one digest must have identical futures
    for dig, h2 in list(second.items())[:6]:
        h1 = seen[dig][0]
        outs = []
        for h in (h1, h2):
            c = fresh(case)
            for op in h:
                apply(c, op)
            res['extra']['traces'] += 1
            fut = []
            for op in OPS:
                cc = copy.deepcopy(c)
                k, v = apply(cc, op)
                fut.append((k, type(v).__name__ if k == 'exc' else (v if isinstance(v, str) else None), chunk_state_digest(cc)))
            outs.append((chunk_state_digest(c), fut))
        hit('C14.merge_sound')
        if outs[0] != outs[1]:
            res.setdefault('harness_error', f'state merge unsound on {case["name"]}: histories {h1} and {h2} share a digest but differ in their futures')
    res['digests'] = sorted(seen)
    res['sample'] = {'scene': case['name'], 'states': len(seen), 'transitions': res['extra']['transitions'], 'closed': closed, 'depth': depth,
                     'canonical_msgs': cmsgs}
    return res
