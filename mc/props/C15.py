"""C15 - input screening rejects exactly the documented conditions and normalises the rest.

E1: ALL frames of <= 3 rows (repeats allowed, so duplicates arise naturally) over the 32-row alphabet
{a,b} x dt{-1,0} x height{NaN,100} x type{-1,0,1,2}, each fed to the real check_data_consistency (and,
for <= 2 rows, to CeiloChunk); layout variants (each column dropped / renamed / replaced by a foreign column of the same dtype, extra columns - also ones that
differ between otherwise identical rows -, dtype variants incl. text columns whose coercion CREATES
duplicates, narrow ints / float32 / nullable dtypes) on all frames of <= 2 rows; non-frames and the
empty frame. Oracle: an independent predicate written from the five documented conditions, evaluated
after coercion on the four required columns.
"""
import itertools
import math
import warnings

import numpy as np
import pandas as pd

TITLE = 'input screening exact'
EXPLORER = 'E1'
MSA_ROWS = [(c, dt, h, t) for c in ('a', 'b') for dt in (-1.0, 0.0) for h in (None, 100.0, 300.0) for t in (-1, 0, 1, 2)]
CLAUSES = ['C15.chunk_ctor_msa', 'C15.raises_iff', 'C15.accepted', 'C15.refused', 'C15.normalised', 'C15.arg_untouched', 'C15.idempotent_no_warn',
           'C15.coincident_other_ceilo_ok', 'C15.dup_after_coercion', 'C15.missing_column', 'C15.non_frame', 'C15.chunk_ctor']
RULE = ('every frame of 1..3 rows over a 32-row alphabet (33 824 frames) in plain layout; every frame of 1..2 rows (1 056) x 14 layout '
        'variants; every frame of 1..2 rows over a 48-row alphabet (three heights) constructed under an MSA below / between the heights; '
        '8 non-frame / empty inputs. An execution = one check_data_consistency call (plus CeiloChunk construction for <= 2 '
        'rows). distinct_nontrivial = distinct (verdict, reason, layout) classes x frame digests of accepted frames')
ASSUMPTIONS = ['frames whose columns cannot be coerced to the required dtypes are outside the property',
               'required dtypes: ceilo = pandas StringDtype, dt/height = float64, type = int64']

ROWS = [(c, dt, h, t) for c in ('a', 'b') for dt in (-1.0, 0.0) for h in (None, 100.0) for t in (-1, 0, 1, 2)]
REQ = ['ceilo', 'dt', 'height', 'type']
VARIANTS = ['plain', 'drop:ceilo', 'drop:dt', 'drop:height', 'drop:type', 'rename:ceilo', 'rename:dt', 'rename:height', 'rename:type',
            'dropadd_last:ceilo', 'dropadd_last:dt', 'dropadd_last:height', 'extra_const', 'extra_differs', 'ceilo_object', 'dt_text',
            'dt_int', 'type_float', 'type_int8', 'f32', 'nullable', 'colorder', 'dupindex', 'concatindex', 'negzero']


def bound(tier):
    return 'all frames <= 3 rows plain (33 824); all frames <= 2 rows x %d layout variants%s' % (
        len(VARIANTS), '' if tier == 'quick' else '; all frames <= 3 rows x 9 layout variants')


def cases(tier):
    out = []
    for i in range(len(ROWS)):
        out.append({'first': i, 'maxlen': 3, 'variants': ['plain']})
        out.append({'first': i, 'maxlen': 2, 'variants': VARIANTS[1:], 'ctor': True})
        if tier != 'quick':
            out.append({'first': i, 'maxlen': 3, 'variants': ['extra_differs', 'dt_text', 'f32', 'nullable', 'drop:type', 'colorder']})
            out.append({'first': i, 'maxlen': 3, 'variants': ['dupindex', 'concatindex', 'negzero']})
    # chunk construction under an MSA (the crop rewrites and drops hits AFTER the screening): all frames of <= 2 rows over three heights
    out += [{'msa_ctor': i} for i in range(len(MSA_ROWS))]
    out.append({'nonframes': True})
    return out


def weight(case):
    if 'nonframes' in case:
        return 1
    if 'msa_ctor' in case:
        return 2 * len(MSA_ROWS)
    return (32 ** (case['maxlen'] - 1)) * len(case['variants'])


def make(rows, variant):
    """Returns the frame for this layout variant (or None when the variant cannot hold the values exactly)."""
    df = pd.DataFrame({'ceilo': pd.array([r[0] for r in rows], dtype=pd.StringDtype()),
                       'dt': np.array([r[1] for r in rows], dtype=float),
                       'height': np.array([np.nan if r[2] is None else r[2] for r in rows], dtype=float),
                       'type': np.array([r[3] for r in rows], dtype='int64')})
    if variant == 'plain':
        return df
    if variant.startswith('drop:'):
        return df.drop(columns=[variant[5:]])
    if variant.startswith('rename:'):          # still four columns with the required dtypes at the same positions, one under another name
        return df.rename(columns={variant[7:]: {'ceilo': 'Ceilo', 'dt': 'time', 'height': 'alt', 'type': 'hit_type'}[variant[7:]]})
    if variant.startswith('dropadd_last:'):    # a required column dropped, a foreign column of the same dtype appended: four columns again
        col = variant[13:]
        df['quality'] = df[col]
        return df.drop(columns=[col])
    if variant == 'extra_const':
        df['station'] = 'GVA'
        return df
    if variant == 'extra_differs':
        df['src'] = ['file%d' % i for i in range(len(df))]
        return df
    if variant == 'ceilo_object':
        df['ceilo'] = df['ceilo'].astype(object)
        return df
    if variant == 'dt_text':
        df['dt'] = pd.Series([('%d' % v if i % 2 == 0 else '%.1f' % v) for i, v in enumerate(df['dt'].tolist())], dtype=object)
        return df
    if variant == 'dt_int':
        df['dt'] = df['dt'].astype('int64')
        return df
    if variant == 'type_float':
        df['type'] = df['type'].astype(float)
        return df
    if variant == 'type_int8':
        df['type'] = df['type'].astype('int8')
        return df
    if variant == 'f32':
        df['dt'] = df['dt'].astype('float32'); df['height'] = df['height'].astype('float32'); df['type'] = df['type'].astype('int32')
        return df
    if variant == 'nullable':
        df['type'] = df['type'].astype('Int64'); df['dt'] = df['dt'].astype('Float64')
        return df
    if variant == 'colorder':
        return df[['type', 'height', 'ceilo', 'dt']]
    if variant == 'dupindex':            # index labels are not part of the format: all rows share one label
        df.index = [0] * len(df)
        return df
    if variant == 'concatindex':         # labels as left by pd.concat of one frame per hit type
        cnt, lab = {}, []
        for t in df['type'].tolist():
            lab.append(cnt.get(t == 0 or t == -1, 0)); cnt[t == 0 or t == -1] = cnt.get(t == 0 or t == -1, 0) + 1
        df.index = lab
        return df
    if variant == 'negzero':             # the same time stamp written as 0.0 and as -0.0 (equal values)
        df['dt'] = [(-0.0 if (v == 0 and i % 2) else v) for i, v in enumerate(df['dt'].tolist())]
        return df
    raise ValueError(variant)


def predicate(rows, variant):
    """Independent statement of the five documented refusal conditions -> reason or None."""
    if variant.startswith(('drop:', 'rename:', 'dropadd_last:')):
        return 'missing_column'
    if not rows:
        return 'empty'
    key = [(r[0], r[1], 'nan' if r[2] is None else r[2], r[3]) for r in rows]
    if len(set(key)) < len(key):
        return 'duplicated'
    by = {}
    for c, dt, h, t in rows:
        by.setdefault((c, dt), set()).add(t)
    for ts in by.values():
        if 0 in ts and len(ts) > 1:
            return 'type0_and_not0'
        if -1 in ts and len(ts) > 1:
            return 'vv_and_not_vv'
    return None


def same_frame(a, b):
    return (list(a.columns) == list(b.columns) and list(a.index) == list(b.index)
            and [str(t) for t in a.dtypes] == [str(t) for t in b.dtypes]
            and all(_col_eq(a[c], b[c]) for c in a.columns))


def _col_eq(x, y):
    xs, ys = x.tolist(), y.tolist()
    if len(xs) != len(ys):
        return False
    for u, v in zip(xs, ys):
        un = u is None or u is pd.NA or (isinstance(u, float) and math.isnan(u))
        vn = v is None or v is pd.NA or (isinstance(v, float) and math.isnan(v))
        if un or vn:
            if un != vn:
                return False
        elif u != v:
            return False
    return True


def run_msa_ctor(case, res, hit):
    """CeiloChunk(frame, MSA) refuses exactly the frames the screening refuses: with MSA+buffer at 50 or 200 ft the hits at 100 / 300 ft are
    rewritten to non-detections or dropped after the screening, which must never turn a legal frame into a refused one."""
    import copy
    from ampycloud.data import CeiloChunk
    from ampycloud.errors import AmpycloudError
    first = MSA_ROWS[case['msa_ctor']]
    frames = [[first]] + [[first, r] for r in MSA_ROWS]
    if 'only_frames' in case:
        frames = [[MSA_ROWS[i] for i in f] for f in case['only_frames']]
    for rows in frames:
        reason = predicate(rows, 'plain')
        for msa in (50.0, 200.0):
            df = make(rows, 'plain')
            pristine = copy.deepcopy(df)
            res['n'] += 1
            hit('C15.chunk_ctor_msa')
            try:
                with warnings.catch_warnings():
                    warnings.simplefilter('ignore')
                    CeiloChunk(df, prms={'MSA': msa, 'MSA_HIT_BUFFER': 0.0})
                cexc = None
            except Exception as e:
                cexc = e
            sub = {'msa_ctor': case['msa_ctor'], 'only_frames': [[MSA_ROWS.index(tuple(r)) for r in rows]]}
            if (reason is not None) != isinstance(cexc, AmpycloudError) or (cexc is not None and not isinstance(cexc, AmpycloudError)):
                if len(res['violations']) < 25:
                    res['violations'].append({'clause': 'C15.chunk_ctor_msa', 'site': 'CeiloChunk.__init__',
                                              'detail': {'rows': rows, 'MSA': msa, 'expected': reason or 'accepted',
                                                         'constructor': 'accepted' if cexc is None else repr(cexc)[:200]}, 'sub': sub})
            if not same_frame(df, pristine) and len(res['violations']) < 25:
                res['violations'].append({'clause': 'C15.arg_untouched', 'site': 'CeiloChunk.__init__', 'detail': {'rows': rows, 'MSA': msa}, 'sub': sub})
            res['digests'].add('msa|%s|%s' % (msa, reason))
    res['digests'] = sorted(res['digests'])
    res['sample'] = {'msa_ctor_first_row': list(first), 'frames': len(frames)}
    return res


def run_case(case):
    import copy
    from ampycloud.utils.utils import check_data_consistency
    from ampycloud.data import CeiloChunk
    from ampycloud.errors import AmpycloudError
    res = {'n': 0, 'clauses': {}, 'digests': set(), 'violations': []}
    cl = res['clauses']

    def hit(c):
        cl[c] = cl.get(c, 0) + 1

    def viol(clause, rows, variant, detail):
        if len(res['violations']) < 25:
            res['violations'].append({'clause': clause, 'site': 'check_data_consistency', 'detail': {'rows': rows, 'layout': variant, **detail},
                                      'sub': {'frames': [[ROWS.index(tuple(r)) for r in rows]], 'variants': [variant], 'ctor': case.get('ctor', False)}})

    if case.get('nonframes'):
        cols = {'ceilo': pd.array([], dtype=pd.StringDtype()), 'dt': np.array([], dtype=float), 'height': np.array([], dtype=float),
                'type': np.array([], dtype='int64')}
        for obj, name in ((None, 'None'), ([['a', 0., 1., 1]], 'list'), ({'ceilo': ['a']}, 'dict'), (np.zeros((2, 4)), 'ndarray'),
                          (pd.Series([1, 2]), 'Series'), ('a,0,1,1', 'str'), (pd.DataFrame(cols), 'empty frame'),
                          (pd.DataFrame(), 'frame without columns')):
            hit('C15.non_frame'); hit('C15.raises_iff'); hit('C15.refused')
            res['n'] += 1
            try:
                with warnings.catch_warnings():
                    warnings.simplefilter('ignore')
                    check_data_consistency(obj)
                viol('C15.raises_iff', [], name, {'expected': 'AmpycloudError', 'got': 'accepted'})
            except AmpycloudError:
                pass
            except Exception as e:
                viol('C15.raises_iff', [], name, {'expected': 'AmpycloudError', 'raised': repr(e)[:200]})
        res['sample'] = {'nonframes': 8}
        res['digests'] = []
        return res

    if 'msa_ctor' in case:
        return run_msa_ctor(case, res, hit)
    if 'frames' in case:
        frames = [[ROWS[i] for i in f] for f in case['frames']]
    else:
        first = ROWS[case['first']]
        frames = [[first]]
        for n in range(2, case['maxlen'] + 1):
            frames += [[first] + list(t) for t in itertools.product(ROWS, repeat=n - 1)]
    for rows in frames:
        for variant in case['variants']:
            df = make(rows, variant)
            pristine = copy.deepcopy(df)
            reason = predicate(rows, variant)
            res['n'] += 1
            hit('C15.raises_iff')
            try:
                with warnings.catch_warnings(record=True):
                    warnings.simplefilter('always')
                    out = check_data_consistency(df)
                exc = None
            except Exception as e:
                out, exc = None, e
            if reason is not None:
                hit('C15.refused')
                if reason == 'missing_column':
                    hit('C15.missing_column')
                if reason == 'duplicated' and variant in ('dt_text', 'extra_differs'):
                    hit('C15.dup_after_coercion')
                if not isinstance(exc, AmpycloudError):
                    viol('C15.raises_iff', rows, variant, {'expected': f'AmpycloudError ({reason})', 'got': 'accepted' if exc is None else repr(exc)[:200]})
            else:
                hit('C15.accepted')
                if len({(r[0]) for r in rows}) > 1 and len({r[1] for r in rows}) < len(rows):
                    hit('C15.coincident_other_ceilo_ok')
                if exc is not None:
                    viol('C15.raises_iff', rows, variant, {'expected': 'accepted', 'raised': repr(exc)[:300]})
                else:
                    hit('C15.normalised')
                    ok = (isinstance(out, pd.DataFrame) and out is not df and sorted(out.columns) == sorted(REQ)
                          and str(out['ceilo'].dtype) in ('string', 'str') and isinstance(out['ceilo'].dtype, pd.StringDtype)
                          and str(out['dt'].dtype) == 'float64' and str(out['height'].dtype) == 'float64' and str(out['type'].dtype) == 'int64'
                          and len(out) == len(rows)
                          and all(_col_eq(out[c], make(rows, 'plain')[c]) for c in REQ))
                    if not ok:
                        viol('C15.normalised', rows, variant, {'columns': list(map(str, out.columns)) if isinstance(out, pd.DataFrame) else None,
                                                               'dtypes': [str(t) for t in out.dtypes] if isinstance(out, pd.DataFrame) else None,
                                                               'values': out.values.tolist() if isinstance(out, pd.DataFrame) else repr(out)})
                    else:
                        hit('C15.idempotent_no_warn')
                        with warnings.catch_warnings(record=True) as wl:
                            warnings.simplefilter('always')
                            try:
                                out2 = check_data_consistency(out)
                                msgs = [str(w.message) for w in wl]
                                bad = [m for m in msgs if m.startswith('Column ')]
                                if bad or not same_frame(out, out2):
                                    viol('C15.idempotent_no_warn', rows, variant, {'second_pass_warnings': bad, 'changed': not same_frame(out, out2)})
                            except Exception as e:
                                viol('C15.idempotent_no_warn', rows, variant, {'second_pass_raised': repr(e)[:200]})
                        res['n'] += 1
                    res['digests'].add(f'{variant}|{len(rows)}|ok')
            hit('C15.arg_untouched')
            if not same_frame(df, pristine):
                viol('C15.arg_untouched', rows, variant, {'columns_now': list(map(str, df.columns)), 'dtypes_now': [str(t) for t in df.dtypes]})
            if reason is not None:
                res['digests'].add(f'{variant}|{reason}')
            # chunk construction gives the same verdict
            if case.get('ctor') and not variant.startswith('drop:') or (case.get('ctor') and variant == 'drop:type'):
                hit('C15.chunk_ctor')
                res['n'] += 1
                try:
                    with warnings.catch_warnings():
                        warnings.simplefilter('ignore')
                        CeiloChunk(df)
                    cexc = None
                except Exception as e:
                    cexc = e
                if (reason is not None) != isinstance(cexc, AmpycloudError) or (cexc is not None and not isinstance(cexc, AmpycloudError)):
                    viol('C15.chunk_ctor', rows, variant, {'expected': reason or 'accepted', 'constructor': 'accepted' if cexc is None else repr(cexc)[:200]})
                if not same_frame(df, pristine):
                    viol('C15.arg_untouched', rows, variant, {'by': 'CeiloChunk', 'columns_now': list(map(str, df.columns))})
    res['digests'] = sorted(res['digests'])
    res['sample'] = {'first_row': list(ROWS[case['first']]) if 'first' in case else None, 'frames': len(frames), 'variants': case['variants']}
    return res
