"""Canonical bit-exact digests of frames, dicts and chunks (DESIGN 2, mc/digest.py)."""
import hashlib
import math
import numpy as np
import pandas as pd

_CANON_NAN = np.float64('nan')


def _col_bytes(ser) -> bytes:
    """Bit-exact bytes of one column. Floats: raw IEEE bytes with every NaN canonicalised (and
    -0.0 kept distinct from 0.0). Everything else: dtype-tagged repr of python values."""
    arr = ser.to_numpy() if hasattr(ser, 'to_numpy') else np.asarray(ser)
    kind = getattr(arr.dtype, 'kind', 'O')
    if kind == 'f':
        a = np.array(arr, dtype=np.float64, copy=True)
        a[np.isnan(a)] = _CANON_NAN
        return b'f8' + a.tobytes()
    if kind in 'iu':
        return b'i8' + np.asarray(arr, dtype=np.int64).tobytes()
    if kind == 'b':
        return b'b1' + np.asarray(arr, dtype=np.uint8).tobytes()
    out = []
    for v in arr.tolist() if hasattr(arr, 'tolist') else list(arr):
        out.append(_scalar_repr(v))
    return ('O[' + ','.join(out) + ']').encode()


def _scalar_repr(v) -> str:
    if v is None or v is pd.NA:
        return 'NA'
    if isinstance(v, (bool, np.bool_)):
        return 'b' + str(bool(v))
    if isinstance(v, (int, np.integer)):
        return 'i' + str(int(v))
    if isinstance(v, (float, np.floating)):
        if math.isnan(v):
            return 'fnan'
        return 'f' + float(v).hex()
    if isinstance(v, str):
        return 's' + repr(v)
    return type(v).__name__ + ':' + repr(v)


def frame_digest(df, *, by_name: bool = False, with_index: bool = True, with_dtype: bool = True,
                 cols=None) -> str:
    """Digest of a DataFrame. ``by_name`` makes the digest independent of the column order."""
    if df is None:
        return 'None'
    h = hashlib.sha256()
    names = list(df.columns) if cols is None else [c for c in cols if c in df.columns]
    if by_name:
        names = sorted(names, key=str)
    h.update(repr(len(df)).encode())
    for c in names:
        h.update(b'|' + str(c).encode() + b':')
        if with_dtype:
            h.update(str(df[c].dtype).encode() + b':')
        h.update(_col_bytes(df[c]))
    if with_index:
        h.update(b'|idx:' + ','.join(_scalar_repr(v) for v in df.index.tolist()).encode())
    return h.hexdigest()[:24]


def obj_digest(obj) -> str:
    """Digest of nested python data (dict/list/tuple/scalars/frames/arrays); dict order ignored."""
    h = hashlib.sha256()
    _feed(h, obj)
    return h.hexdigest()[:24]


def _feed(h, obj):
    if isinstance(obj, dict):
        h.update(b'{')
        for k in sorted(obj, key=repr):
            h.update(repr(k).encode() + b':')
            _feed(h, obj[k])
            h.update(b',')
        h.update(b'}')
    elif isinstance(obj, (list, tuple)):
        h.update(b'[' if isinstance(obj, list) else b'(')
        for v in obj:
            _feed(h, v)
            h.update(b',')
        h.update(b']')
    elif isinstance(obj, pd.DataFrame):
        h.update(b'DF' + frame_digest(obj).encode())
    elif isinstance(obj, pd.Series):
        h.update(b'SER' + str(obj.dtype).encode() + _col_bytes(obj))
    elif isinstance(obj, np.ndarray):
        h.update(b'ARR' + str(obj.dtype).encode() + str(obj.shape).encode())
        h.update(_col_bytes(obj.ravel()))
    else:
        h.update(_scalar_repr(obj).encode())


TABLES = ('slices', 'groups', 'layers')
ID_COLS = ('slice_id', 'group_id', 'layer_id')


def table_digest(tab) -> str:
    return frame_digest(tab, by_name=False)


def chunk_tables_digest(chunk) -> dict:
    """Digest of each of the three tables (None when not computed)."""
    return {w: table_digest(getattr(chunk, '_' + w)) for w in TABLES}


def chunk_msgs(chunk) -> dict:
    """The message at each level that has been computed; the exception type name otherwise."""
    out = {}
    for w in TABLES:
        try:
            out[w] = chunk.metar_msg(w)
        except Exception as e:  # pragma: no cover - reported by callers
            out[w] = 'EXC:' + type(e).__name__
    return out


def chunk_data_digest(chunk, *, with_index: bool = True) -> str:
    return frame_digest(chunk.data, by_name=True, with_index=with_index)


def chunk_state_digest(chunk) -> str:
    """Digest of ALL mutable state of a CeiloChunk: data (incl. id columns), three tables, flag,
    parameter snapshot."""
    parts = {
        'data': frame_digest(chunk._data, by_name=False),
        'tables': chunk_tables_digest(chunk),
        'flag': bool(chunk._clouds_above_msa_buffer),
        'prms': obj_digest(chunk._prms),
        'geoloc': chunk._geoloc, 'ref_dt': chunk._ref_dt,
    }
    return obj_digest(parts)


def result_digest(chunk, *, data_index: bool = False) -> str:
    """Digest of everything a user can observe from a processed chunk: per-hit data with id
    columns (column order and, by default, index labels normalised away), tables, messages, flag."""
    parts = {
        'data': frame_digest(chunk.data, by_name=True, with_index=data_index),
        'tables': chunk_tables_digest(chunk),
        'msgs': chunk_msgs(chunk),
        'flag': bool(chunk.clouds_above_msa_buffer),
    }
    return obj_digest(parts)
