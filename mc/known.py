"""Known findings (DESIGN 7). The file is committed and NEVER written at run time.

Entry: {id, property, status: 'known' | 'fixed', clause, site (optional), predicate (name of an
input-class predicate below, optional), what, record, minimal_input}.  Only status == 'known'
entries suppress anything, and only violations with the same property + clause + site whose
case satisfies the predicate. A different violation of the same property is still reported.
"""
import json
import os

from . import env

PATH = os.path.join(env.VERIF_ROOT, 'known_findings.json')

PREDICATES = {}


def predicate(name):
    def deco(fn):
        PREDICATES[name] = fn
        return fn
    return deco


def load():
    if not os.path.exists(PATH):
        return []
    with open(PATH) as f:
        return json.load(f).get('findings', [])


def match(entries, prop_id, case, violation):
    for ent in entries:
        if ent.get('status') != 'known' or ent.get('property') != prop_id:
            continue
        if ent.get('clause') and ent['clause'] != violation.get('clause'):
            continue
        if ent.get('site') and ent['site'] != violation.get('site'):
            continue
        pred = ent.get('predicate')
        if pred:
            fn = PREDICATES.get(pred)
            if fn is None or not fn(case, violation):
                continue
        return ent
    return None
