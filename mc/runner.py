"""Check runner: process pool, sharding, aggregation, evidence, replays, known findings, exit codes.

Contract with a property module ``mc.props.Cxx``:

    TITLE            str
    CLAUSES          list of oracle clause ids that MUST be exercised (>0) for the run to count
    RULE             str: how cases are enumerated, what makes one non-trivial / distinct
    EXPLORER         'E1' | 'E2' | 'E4' (which evidence keys are filled)
    ASSUMPTIONS      list of str
    cases(tier)      -> iterable of JSON-able case dicts (the whole bounded space, no sampling)
    run_case(case)   -> dict with any of:
         n            executions performed on the real code by this case (default 1)
         digests      list of outcome digests of executions that met their premise and exercised
                      at least one clause ("non-trivial"); the runner counts the distinct ones
         clauses      {clause id: times exercised}
         premise_not_met, crashed   ints
         extra        {'states':..,'transitions':..,'traces':.., anything additive}
         closed       bool (E2: fixpoint reached for this case)
         violations   list of {'clause','detail','site', optional 'sub'} (sub = smaller replayable
                      case; default: the case itself)
         sample       optional JSON-able description of what was explored
    replay(case)     -> same as run_case (default), used by ``mc replay``
"""
import importlib
import json
import multiprocessing as mp
import os
import signal
import subprocess
import sys
import time
import traceback
import hashlib
from collections import Counter

from . import env, known

# MC_OUT_DIR: where evidence and replays go. Only the mutant runner sets it (to a scratch directory), so that runs against a
# deliberately broken scratch tree never touch /verif/evidence, which must keep describing /repo.
_OUT = os.environ.get('MC_OUT_DIR') or env.VERIF_ROOT
EVIDENCE_DIR = os.path.join(_OUT, 'evidence')
REPLAY_DIR = os.path.join(_OUT, 'replays')
NPROC = int(os.environ.get('MC_NPROC', '16'))
CASE_HORIZON_S = int(os.environ.get('MC_CASE_HORIZON', '900'))
GUARD_OFF = {'C08', 'C09'}       # these run with the hook guard off (DESIGN 2.5)

_MOD = None


class HarnessError(Exception):
    pass


class CaseTimeout(BaseException):
    """Raised by the per-case alarm. A BaseException on purpose: the `except Exception` clauses that observe the code under
    test must never mistake the harness's own horizon for an exception raised by ampycloud."""


def _alarm(signum, frame):
    raise CaseTimeout('per-case horizon exceeded')


def _worker(case):
    t0 = time.time()
    signal.signal(signal.SIGALRM, _alarm)
    signal.alarm(CASE_HORIZON_S)
    try:
        r = _MOD.run_case(case)
        r = dict(r) if r else {}
    except CaseTimeout:
        r = {'harness_error': f'time-out after {CASE_HORIZON_S}s', 'n': 0}
    except Exception:
        r = {'harness_error': traceback.format_exc(limit=8), 'n': 0}
    finally:
        signal.alarm(0)
    r['_case'] = case
    r['_t'] = time.time() - t0
    return r


def load_module(prop_id):
    return importlib.import_module(f'mc.props.{prop_id}')


def _case_id(case) -> str:
    return hashlib.sha256(json.dumps(case, sort_keys=True, default=str).encode()).hexdigest()[:16]


def write_replay(prop_id, case, violation) -> str:
    d = os.path.join(REPLAY_DIR, prop_id)
    os.makedirs(d, exist_ok=True)
    body = {'property': prop_id, 'clause': violation.get('clause'), 'site': violation.get('site'),
            'detail': violation.get('detail'), 'case': case,
            'how_to_replay': f'cd /verif && ./check replay replays/{prop_id}/<this file>'}
    path = os.path.join(d, f"{violation.get('clause', 'x').replace('/', '_')}-{_case_id(case)}.json")
    with open(path, 'w') as f:
        json.dump(body, f, indent=1, default=str)
    # the same artefact as a plain unit test that replays it without the explorer
    with open(os.path.join(d, os.path.basename(path)[:-5].replace('.', '_').replace('-', '_') + '_test.py'), 'w') as f:
        f.write('"""Replays one recorded violation of %s (%s) on the current /repo tree; fails while it still reproduces."""\n'
                'import subprocess\n\n\ndef test_replay():\n'
                '    r = subprocess.run([%r, "replay", %r], capture_output=True, text=True)\n'
                '    assert r.returncode == 0, r.stdout[-2000:]\n' % (prop_id, violation.get('clause'), os.path.join(env.VERIF_ROOT, 'check'), path))
    return path


def confirm_replays(paths):
    """Each replay file must reproduce its violation TWICE in fresh interpreters."""
    procs = []
    for p in paths:
        for _ in range(2):
            procs.append((p, subprocess.Popen([sys.executable, '-m', 'mc', 'replay', p],
                                              cwd=env.VERIF_ROOT, stdout=subprocess.PIPE,
                                              stderr=subprocess.STDOUT, text=True)))
    ok = {p: True for p in paths}
    outs = {}
    for p, pr in procs:
        out, _ = pr.communicate()
        outs.setdefault(p, []).append(out[-2000:])
        if pr.returncode != 1:
            ok[p] = False
    return ok, outs


def run_check(prop_id: str, tier: str, seed: int, cap_s: float = None) -> int:
    global _MOD
    t0 = time.time()
    env.import_ampycloud()
    mod = _MOD = load_module(prop_id)
    if hasattr(mod, 'prepare'):
        mod.prepare(tier)
    cases = list(mod.cases(tier))
    ncases = len(cases)
    # replay artefacts of earlier runs of this property are stale by definition
    rdir = os.path.join(REPLAY_DIR, prop_id)
    if os.path.isdir(rdir):
        for fn in os.listdir(rdir):
            try:
                os.remove(os.path.join(rdir, fn))
            except OSError:
                pass
    # VERIF_SEED only rotates the order in which shards are handed out and which samples are kept.
    rot = seed % max(ncases, 1)
    order = cases[rot:] + cases[:rot]
    if hasattr(mod, 'weight'):           # heavy cases first (load balance only; the set is unchanged)
        order.sort(key=mod.weight, reverse=True)

    agg = dict(evaluations=0, premise_not_met=0, crashed_inputs=0, cases_done=0)
    clauses = Counter()
    extra = Counter()
    digests = set()
    violations = []
    harness_errors = []
    samples = []
    closed = []
    notes = []
    slowest_case = [None]
    slowest = 0.0
    cap_hit = False

    def consume(r):
        nonlocal slowest
        agg['cases_done'] += 1
        agg['evaluations'] += int(r.get('n', 1))
        agg['premise_not_met'] += int(r.get('premise_not_met', 0))
        agg['crashed_inputs'] += int(r.get('crashed', 0))
        clauses.update(r.get('clauses', {}))
        extra.update(r.get('extra', {}))
        digests.update(r.get('digests', []))
        if r['_t'] > slowest:
            slowest_case[0] = r['_case']
        slowest = max(slowest, r['_t'])
        if 'closed' in r:
            closed.append(bool(r['closed']))
        for nt in r.get('notes', []):
            if len(notes) < 200:
                notes.append(nt)
        if r.get('harness_error'):
            harness_errors.append({'case': r['_case'], 'error': r['harness_error']})
        for v in r.get('violations', []):
            if len(violations) < 400:
                violations.append((v.get('sub') or r['_case'], v))
        if len(samples) < 3 or (agg['cases_done'] + seed) % max(ncases // 3, 1) == 0 and len(samples) < 6:
            samples.append(r.get('sample', r['_case']))

    nproc = min(NPROC, max(ncases, 1))
    if nproc <= 1 or os.environ.get('MC_SERIAL') == '1':
        for c in order:
            consume(_worker(c))
            if cap_s and time.time() - t0 > cap_s:
                cap_hit = True
                break
    else:
        ctx = mp.get_context('fork')
        chunksize = 1 if ncases <= 20000 else max(1, min(64, ncases // (nproc * 8)))
        # chunksize 1 => every case runs in a FRESH fork of this (never-executing) parent: module-level state a
        # defect may park somewhere cannot leak from one case into the next, so a case is replayable on its own
        with ctx.Pool(nproc, maxtasksperchild=1 if chunksize == 1 else None) as pool:
            for r in pool.imap_unordered(_worker, order, chunksize=chunksize):
                consume(r)
                if cap_s and time.time() - t0 > cap_s:
                    cap_hit = True
                    pool.terminate()
                    break

    # ---- verdict ------------------------------------------------------------------------
    lines = []
    exit_code = 0
    missing = [c for c in getattr(mod, 'CLAUSES', []) if clauses.get(c, 0) == 0]

    # group violations by signature, confirm the first few by replay in fresh interpreters
    by_sig = {}
    for case, v in violations:
        sig = (v.get('clause'), v.get('site'))
        by_sig.setdefault(sig, []).append((case, v))
    kf = known.load()
    new_viol, known_hits = [], []
    for sig, lst in by_sig.items():
        for case, v in lst:
            ent = known.match(kf, prop_id, case, v)
            if ent is not None:
                known_hits.append((ent, case, v))
            else:
                new_viol.append((case, v))
    seen_known = set()
    for ent, case, v in known_hits:
        if ent['id'] not in seen_known:
            seen_known.add(ent['id'])
            lines.append(f"KNOWN-FINDING: property={prop_id} {ent['what']}")
    confirmed_paths = []
    if new_viol:
        # one representative per signature, at most 4 signatures, smallest case first
        reps = {}
        for case, v in new_viol:
            sig = (v.get('clause'), v.get('site'))
            size = len(json.dumps(case, default=str))
            if sig not in reps or size < reps[sig][0]:
                reps[sig] = (size, case, v)
        paths = []
        for sig in list(reps)[:4]:
            _, case, v = reps[sig]
            paths.append(write_replay(prop_id, case, v))
        ok, outs = confirm_replays(paths)
        for p in paths:
            if ok[p]:
                confirmed_paths.append(p)
                lines.append(f'VIOLATION property={prop_id} replay={p}')
            else:
                harness_errors.append({'replay_not_reproduced': p, 'output': outs[p]})
        if confirmed_paths:
            exit_code = 1
    if exit_code == 0 and (harness_errors or missing):
        exit_code = 2

    # ---- evidence -----------------------------------------------------------------------
    cov = {
        'evaluations': agg['evaluations'],
        'distinct_nontrivial': len(digests),
        'rule': mod.RULE,
        'samples': samples[:6],
        'exhaustive': (not cap_hit) and not harness_errors,
        'cases': ncases, 'cases_done': agg['cases_done'],
        'premise_not_met': agg['premise_not_met'],
        'crashed_inputs': agg['crashed_inputs'],
        'clauses_exercised': dict(sorted(clauses.items())),
        'clauses_required_but_unexercised': missing,
        'bound': mod.bound(tier) if hasattr(mod, 'bound') else '',
        'explorer': getattr(mod, 'EXPLORER', 'E1'),
        'tree_sha256': env.tree_sha256(),
        'cap_hit': cap_hit,
        'slowest_case_s': round(slowest, 2),
        'slowest_case': slowest_case[0],
        'hook_guard': os.environ.get(env.GUARD),
        'known_findings_matched': sorted(seen_known),
        'violations_distinct_signatures': [list(map(str, s)) for s in by_sig],
        'harness_errors': harness_errors[:5],
    }
    if 'states' in extra:
        cov['states'] = int(extra['states'])
        cov['transitions'] = int(extra.get('transitions', 0))
        cov['traces_validated_against_impl'] = int(extra.get('traces', 0))
    for k, v in extra.items():
        if k not in ('states', 'transitions', 'traces'):
            cov[k] = int(v)
    if notes:
        cov['notes'] = sorted(notes)
    if closed:
        cov['closed_scenes'] = sum(closed)
        cov['unclosed_scenes'] = len(closed) - sum(closed)
    if hasattr(mod, 'finalize'):
        cov.update(mod.finalize(tier) or {})
    ev = {
        'property_id': prop_id, 'tier': tier, 'seed': int(seed), 'level': 'model_checking',
        'coverage': cov,
        'assumptions': list(getattr(mod, 'ASSUMPTIONS', [])),
        'wall_s': round(time.time() - t0, 2),
        'violations': len(confirmed_paths),
    }
    os.makedirs(EVIDENCE_DIR, exist_ok=True)
    with open(os.path.join(EVIDENCE_DIR, f'{prop_id}.json'), 'w') as f:
        json.dump(ev, f, indent=1, default=str)
        f.write('\n')

    for ln in lines:
        print(ln)
    status = {0: 'HELD', 1: 'VIOLATED', 2: 'HARNESS-ERROR'}[exit_code]
    print(f'{prop_id} [{tier}] {status}: cases={agg["cases_done"]}/{ncases} executions={agg["evaluations"]} '
          f'distinct_outcomes={len(digests)} premise_not_met={agg["premise_not_met"]} '
          f'crashed={agg["crashed_inputs"]} '
          + ' '.join(f'{k}={v}' for k, v in sorted(extra.items()))
          + f' wall={time.time() - t0:.1f}s')
    print('  clauses: ' + ' '.join(f'{k}={v}' for k, v in sorted(clauses.items())))
    if missing:
        print(f'HARNESS-ERROR clauses never exercised: {missing}')
    for he in harness_errors[:3]:
        print('HARNESS-ERROR ' + json.dumps(he, default=str)[:1500])
    return exit_code


def run_replay(path: str) -> int:
    with open(path) as f:
        body = json.load(f)
    prop_id = body['property']
    env.import_ampycloud()
    mod = load_module(prop_id)
    if hasattr(mod, 'prepare'):
        mod.prepare('quick')
    fn = getattr(mod, 'replay', mod.run_case)
    r = fn(body['case'])
    viol = [v for v in r.get('violations', [])
            if body.get('clause') is None or v.get('clause') == body['clause']]
    for v in viol[:5]:
        print(f"REPRODUCED property={prop_id} clause={v.get('clause')} site={v.get('site')}\n  {str(v.get('detail'))[:1200]}")
    if not viol:
        print(f'NOT-REPRODUCED property={prop_id} ({path})')
    return 1 if viol else 0
