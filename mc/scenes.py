"""Scene alphabets (DESIGN 3): deterministic builders of hit tables. No RNG anywhere.

A scene is a list of rows [ceilo, dt, height|None, type]; ``frame`` turns it into the documented
DataFrame. Case dicts carry either explicit rows or a generator spec {'gen': name, **args} that
``build`` resolves, so that replay files stay small and self-contained.
"""
import glob
import itertools
import math
import os

import numpy as np
import pandas as pd

from . import env

COLS = ['ceilo', 'dt', 'height', 'type']


def frame(rows) -> pd.DataFrame:
    df = pd.DataFrame([[r[0], float(r[1]), (np.nan if r[2] is None else float(r[2])), int(r[3])] for r in rows],
                      columns=COLS)
    df['ceilo'] = df['ceilo'].astype(pd.StringDtype())
    df['dt'] = df['dt'].astype(float)
    df['height'] = df['height'].astype(float)
    df['type'] = df['type'].astype(int)
    return df


def rows_of(df) -> list:
    out = []
    for c, dt, h, t in zip(df['ceilo'].tolist(), df['dt'].tolist(), df['height'].tolist(), df['type'].tolist()):
        out.append([str(c), float(dt), None if (h is None or (isinstance(h, float) and math.isnan(h))) else float(h), int(t)])
    return out


def stamps(T, step=15.0):
    """T time stamps, most recent = 0, oldest first."""
    return [0.0 - step * (T - 1 - t) for t in range(T)]     # (never -0.0: it does not survive an int round trip bit-for-bit)


def typed_rows(ceilo, dt, heights):
    """Rows of ONE measurement: heights ascending get types 1,2,3..; none -> a non-detection."""
    hs = sorted(heights)
    if not hs:
        return [[ceilo, dt, None, 0]]
    return [[ceilo, dt, h, i + 1] for i, h in enumerate(hs)]


# ------------------------------------------------------------------------------------------------
# L: layer-table scenes. One ceilometer, T steps, flat decks; deck i has exactly counts[i] hits.
# ------------------------------------------------------------------------------------------------
def layer_scene(counts, heights, T=16, ceilo='a', spread=3):
    present = [set() for _ in range(T)]
    for i, n in enumerate(counts):
        for j in range(n):
            present[(i * spread + j) % T].add(i)
    rows = []
    for t, dt in enumerate(stamps(T)):
        rows += typed_rows(ceilo, dt, [heights[i] for i in sorted(present[t])])
    return rows


# counts realising each okta for T=16, MAX_HITS_OKTA0=1, MAX_HOLES_OKTA8=0, away from x.5 ties
OKTA2COUNT_T16 = {0: 1, 1: 2, 2: 4, 3: 6, 4: 8, 5: 10, 6: 12, 7: 14, 8: 16}


def count_scene(count, total, height=1000.0, n_ceilos=1):
    """`total` measurements, `count` of them with one hit in one flat deck (spread over ceilometers
    round-robin), the others non-detections."""
    rows = []
    names = ['a', 'b', 'c'][:n_ceilos]
    per = [total // n_ceilos + (1 if k < total % n_ceilos else 0) for k in range(n_ceilos)]
    k_hit = 0
    idx = 0
    for k, name in enumerate(names):
        for t, dt in enumerate(stamps(per[k])):
            if idx < count:
                rows.append([name, dt, height, 1])
            else:
                rows.append([name, dt, None, 0])
            idx += 1
    return rows


# ------------------------------------------------------------------------------------------------
# M: micro tables. C ceilometers x T stamps; each cell takes one entry of a menu.
# A menu entry is a list of (height|None, type) pairs, or None for "no row at all".
# ------------------------------------------------------------------------------------------------
def micro_rows(cells, C, T, menu, names=('a', 'b', 'c'), dts=None):
    dts = dts or stamps(T)
    rows = []
    k = 0
    for c in range(C):
        for t in range(T):
            entry = menu[cells[k]]
            k += 1
            if entry is None:
                continue
            for (h, typ) in entry:
                rows.append([names[c], dts[t], h, typ])
    return rows


# ------------------------------------------------------------------------------------------------
# B: deck scenes
# ------------------------------------------------------------------------------------------------
def pattern_heights(h, n, pattern, T):
    """Heights of the n hits of one deck, in time order (oldest first)."""
    if pattern == 'flat':
        return [h] * n
    if pattern == 'two':
        return [h if i % 2 == 0 else h + 40.0 for i in range(n)]
    if pattern == 'jitter':
        return [h + (0.0, 30.0, -20.0)[i % 3] for i in range(n)]
    if pattern == 'rampup':
        return [h + 200.0 * i / max(n - 1, 1) for i in range(n)]
    if pattern == 'rampdown':
        return [h + 200.0 * (n - 1 - i) / max(n - 1, 1) for i in range(n)]
    if pattern.startswith('bimodal'):
        d = float(pattern[len('bimodal'):] or 400)
        return [h + (0.0, 10.0, -10.0)[i % 3] + (d if i % 2 else 0.0) for i in range(n)]
    if pattern.startswith('trimodal'):
        d = float(pattern[len('trimodal'):] or 400)
        return [h + (0.0, 10.0)[(i // 3) % 2] + d * (i % 3) for i in range(n)]
    if pattern.startswith('halves'):
        d = float(pattern[len('halves'):] or 400)
        return [h + (0.0, 10.0, -10.0)[i % 3] + (d if i >= n // 2 else 0.0) for i in range(n)]
    if pattern.startswith('modes'):
        # 'modes:d1:d2' -> three interleaved modes at h, h+d1, h+d1+d2 (+-8 ft jitter)
        _, d1, d2 = pattern.split(':')
        offs = (0.0, float(d1), float(d1) + float(d2))
        return [h + offs[i % 3] + (0.0, 8.0, -8.0)[(i // 3) % 3] for i in range(n)]
    raise ValueError(pattern)


def deck_scene(decks, T=40, ceilos=('a',), ceilo_offsets=None, step=15.0):
    """decks: list of dict(h, n, pattern, [ceilo index or 'all']). Every ceilometer has T stamps.
    Deck d contributes n hits per ceilometer it is seen by, at the LAST n stamps (so that 'most
    recent' is well defined), heights from pattern_heights (+ per-ceilometer offset)."""
    ceilo_offsets = ceilo_offsets or [0.0] * len(ceilos)
    dts = stamps(T, step)
    rows = []
    for ci, cname in enumerate(ceilos):
        per_t = [[] for _ in range(T)]
        for d in decks:
            seen = d.get('ceilo', 'all')
            if seen != 'all' and seen != ci:
                continue
            n = min(d['n'], T)
            hs = pattern_heights(d['h'] + ceilo_offsets[ci], n, d.get('pattern', 'flat'), T)
            where = d.get('where', 'last')
            if where == 'last':
                ts = list(range(T - n, T))
            elif where == 'first':
                ts = list(range(n))
            else:  # 'spread'
                ts = [int(round(i * (T - 1) / max(n - 1, 1))) for i in range(n)] if n > 1 else [T // 2]
                ts = sorted(set(ts))
                hs = hs[:len(ts)]
            for t, hh in zip(ts, hs):
                per_t[t].append(hh)
        for t in range(T):
            rows += typed_rows(cname, dts[t], per_t[t])
    return rows


ROW_ORDERS = ('asc', 'desc', 'evenodd', 'rotated', 'byceilo')     # + 'shuffle<k>': deterministic Fisher-Yates permutation number k (own LCG)


def reorder(rows, order):
    """Row orders of X.rows. Input rows are per-ceilometer blocks in time-ascending order."""
    if order == 'byceilo':
        return list(rows)
    asc = sorted(range(len(rows)), key=lambda i: (rows[i][1], rows[i][0], rows[i][3]))
    asc = [rows[i] for i in asc]
    if order == 'asc':
        return asc
    if order == 'desc':
        return asc[::-1]
    if order == 'evenodd':
        return asc[0::2] + asc[1::2]
    if order == 'rotated':
        k = len(asc) // 3
        return asc[k:] + asc[:k]
    if order.startswith('shuffle'):
        g = _lcg(1000 + int(order[7:]))
        out = list(asc)
        for i in range(len(out) - 1, 0, -1):
            j = int(next(g) * (i + 1))
            out[i], out[j] = out[j], out[i]
        return out
    raise ValueError(order)


# ------------------------------------------------------------------------------------------------
# W: witness scenes
# ------------------------------------------------------------------------------------------------
REF_DIR = '/repo/test/ampycloud/ref_data'
SCENE_DIR = os.path.join(env.VERIF_ROOT, 'scenes')


def witness_names():
    return sorted(os.path.basename(p)[:-4] for p in glob.glob(os.path.join(SCENE_DIR, '*.csv')))


def witness(name):
    df = pd.read_csv(os.path.join(SCENE_DIR, name + '.csv'))
    df = df[COLS]
    return rows_of(df)


def id_alloc_scene(S, pos=0):
    """S far-apart single hits + one 41-hit chain (two sub-decks 300 ft apart) that merges into one
    group which the mixture model splits in two. `pos` singles lie BELOW the chain so that the
    split group sits at table position `pos`. Every hit has its own time stamp."""
    rows = []
    t = 0
    chain0 = 1000.0 + 400.0 * pos
    for i in range(pos):
        rows.append(['a', -float(t), 200.0 + 400.0 * i, 1]); t += 1
    for i in range(S - pos):
        rows.append(['a', -float(t), chain0 + 2000.0 + 300.0 * i, 1]); t += 1
    hs = [chain0 + 5 * i for i in range(20)] + [chain0 + 300.0 + 5 * i for i in range(21)]
    for h in hs:
        rows.append(['a', -float(t), h, 1]); t += 1
    return rows


ID_ALLOC_PRMS = {'SLICING_PRMS': {'distance_threshold': 1e-6}, 'BASE_LVL_HEIGHT_PERC': 100,
                 'MIN_SEP_VALS': [250], 'MIN_SEP_LIMS': [], 'MAX_HITS_OKTA0': 0}


def _lcg(seed):
    x = seed
    while True:
        x = (x * 1103515245 + 12345) % (2 ** 31)
        yield x / 2 ** 31


def lcg_deck_scene(n, k, d, amp, seed):
    """A compact deck near 1900 ft quantised to 10 ft (own LCG, no RNG), k stray hits d ft above it and
    ten second/third hits at 9000 ft. Found by exhaustive search (scratch/find119c.py) over 5760 such
    scenes: the ones listed in W119 make one of the mixture fits leave a component unpopulated (#119)."""
    g = _lcg(seed)
    rows = []
    T = n
    strays = set(int(round(i * (T - 1) / max(k - 1, 1))) for i in range(k)) if k > 1 else {T // 2}
    for t in range(T):
        dt = 0.0 - 15. * (T - 1 - t)
        hs = [1900. + 10 * round(amp / 10 * (next(g) + next(g) + next(g) - 1.5))]
        if t in strays:
            hs = [1900. + d + 10 * round(2 * (next(g) - 0.5))]
        if t < 10:
            hs.append(9000.)
        rows += typed_rows('a', dt, [round(h, 1) for h in hs])
    return rows


def lcg_bimodal_scene(n, d, amp, seed, frac):
    """One ceilometer, n stamps, a deck near 1900 ft and a second mode d ft above it (share frac), triangular noise of amplitude amp
    quantised to 10 ft (own LCG, no RNG). The scenes listed in WAIC were found by exhaustive search (scratch/findaic.py, 720 scenes): the
    mixture step splits them under the AIC score and not under the (default) BIC score."""
    g = _lcg(seed)
    rows = []
    for t in range(n):
        dt = 0.0 - 15. * (n - 1 - t)
        base = 1900. + (d if (next(g) < frac) else 0.)
        rows.append(['a', dt, base + 10 * round(amp / 10 * (next(g) + next(g) + next(g) - 1.5)), 1])
    return rows


def regroup_scene(T1, gap, T2, lo2, a=11, m=37, W=400.):
    """One ceilometer: a THICK deck (1000..1000+W ft, heights (i*a mod m) spread over it) for T1 steps, `gap` non-detections, then a
    thin deck in its upper part (lo2..1400 ft) for T2 steps. The slicing stage cuts the heights in two overlapping slices; the grouping
    stage re-clusters their hits in time, so that the groups inherit the slice ids but hold different hits (other okta classes)."""
    rows = []
    T = T1 + gap + T2
    for i in range(T):
        dt = 0.0 - 15. * (T - 1 - i)
        if i < T1:
            rows.append(['a', dt, 1000. + ((i * a) % m) * round(W / m), 1])
        elif i < T1 + gap:
            rows.append(['a', dt, None, 0])
        else:
            rows.append(['a', dt, lo2 + ((i * 5) % 13) * round((1400. - lo2) / 13), 1])
    return rows


WAIC = [(60, 250, 90, 9, 0.5), (60, 275, 120, 0, 0.5), (80, 250, 90, 2, 0.5)]
W119 = [(40, 1, 300, 30, 11), (40, 3, 250, 30, 28), (60, 2, 250, 30, 29), (60, 2, 350, 30, 29), (40, 3, 350, 30, 28)]


def build(spec):
    """Resolve a scene spec to rows."""
    if isinstance(spec, list):
        return spec
    g = spec['gen']
    if g == 'rows':
        return spec['rows']
    if g == 'layers':
        return layer_scene(spec['counts'], spec['heights'], spec.get('T', 16))
    if g == 'count':
        return count_scene(spec['count'], spec['total'], spec.get('height', 1000.0), spec.get('n_ceilos', 1))
    if g == 'decks':
        rows = deck_scene(spec['decks'], spec.get('T', 40), tuple(spec.get('ceilos', ['a'])), spec.get('ceilo_offsets'),
                          spec.get('step', 15.0))
        return reorder(rows, spec.get('order', 'byceilo'))
    if g == 'witness':
        rows = witness(spec['name'])
        return reorder(rows, spec['order']) if spec.get('order') else rows
    if g == 'idalloc':
        return id_alloc_scene(spec['S'], spec.get('pos', 0))
    if g == 'lcgdeck':
        return lcg_deck_scene(*spec['args'])
    if g == 'regroup':
        return regroup_scene(*spec['args'])
    if g == 'lcgbimodal':
        return lcg_bimodal_scene(*spec['args'])
    if g == 'demo':
        from ampycloud.utils import mocker
        return rows_of(mocker.canonical_demo_data())
    raise ValueError(f'unknown scene generator {g}')
