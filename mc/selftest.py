"""./check selftest [--setup] : offline sanity of the framework.

--setup  : what MANIFEST.setup_cmd runs after a fresh restore: proves that ampycloud is imported from
           /repo/src, warms the matplotlib font cache, regenerates nothing else (there is nothing to
           build: the package is an editable install).
default  : additionally validates MANIFEST.json and every evidence file against the schemas
           (jsonschema lives in the tooling venv, so that part shells out to python3-vt).
"""
import json
import os
import subprocess
import sys

from . import env


def main(argv):
    amp = env.import_ampycloud()
    print('ampycloud from', os.path.dirname(amp.__file__), 'tree', env.tree_sha256()[:16])
    import matplotlib
    matplotlib.use('Agg')
    import matplotlib.pyplot as plt
    fig = plt.figure(); fig.text(0.5, 0.5, 'warm'); fig.savefig(os.devnull, format='png'); plt.close(fig)
    import sklearn, pandas, numpy, statsmodels  # noqa
    print('numpy', numpy.__version__, 'pandas', pandas.__version__, 'sklearn', sklearn.__version__)
    os.makedirs(os.path.join(env.VERIF_ROOT, 'evidence'), exist_ok=True)
    if '--setup' in argv:
        print('setup ok')
        return 0
    code = r'''
import json, sys, glob, jsonschema
ok = True
man = json.load(open('/verif/MANIFEST.json'))
jsonschema.validate(man, json.load(open('/root/.vp/MANIFEST.schema.json')))
print('MANIFEST ok:', len(man['checks']), 'checks')
sch = json.load(open('/root/.vp/EVIDENCE.schema.json'))
for c in man['checks']:
    p = c['evidence_file']
    try:
        jsonschema.validate(json.load(open(p)), sch); print('evidence ok', p)
    except Exception as e:
        ok = False; print('EVIDENCE INVALID', p, str(e)[:300])
sys.exit(0 if ok else 1)
'''
    return subprocess.call(['python3-vt', '-c', code])
