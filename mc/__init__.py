"""Bounded exhaustive exploration ("model checking") of MeteoSwiss/ampycloud on the real code.

See /verif/DESIGN.md.  Entry point: ``python -m mc <PROPERTY> [--tier quick|thorough]``.
"""
