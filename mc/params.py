"""P - parameter menus (DESIGN 3) and E3, the deviation-bounded configuration enumerator.

Every menu value is documented-legal ("keeps its documented meaning"): positive scales and thresholds,
percentages in [0,100], look-back in (0,100], LOWESS frac in (0,1], ordered ranges, MIN_SEP_VALS one
longer than ascending MIN_SEP_LIMS, known mode names.

A deviation is (name, route, nested dict). route 'call' = per-call prms dict; route 'global' = the
value must be written into dynamic.AMPYCLOUD_PRMS (a per-call dict cannot ADD keys, e.g. the kwargs
of another height scaling mode); the harness restores the global afterwards with reset_prms().
"""
import copy
import itertools


def nest(path, value):
    d = value
    for k in reversed(path.split('.')):
        d = {k: d}
    return d


def merge(a, b):
    out = copy.deepcopy(a)
    for k, v in b.items():
        if isinstance(v, dict) and isinstance(out.get(k), dict):
            out[k] = merge(out[k], v)
        else:
            out[k] = copy.deepcopy(v)
    return out


# (int-default leaves also get a value with a fractional part: the three routes must not round it differently)
LEAF_MENU = [
    ('MSA', [0, 1500, 10000, None]),        # (None is the default: it matters when the prior global holds something else)
    ('MSA_HIT_BUFFER', [0, 500, 250.75]),
    ('MAX_HITS_OKTA0', [0, 1, 10]),
    ('MAX_HOLES_OKTA8', [0, 5]),
    ('BASE_LVL_HEIGHT_PERC', [0, 50, 100, 12.5]),
    ('BASE_LVL_LOOKBACK_PERC', [1, 30, 50, 33.3]),
    ('EXCLUDE_FOR_BASE_HEIGHT_CALC', [['a'], ['a', 'b'], ['zz']]),
    ('LOWESS.frac', [0.05, 1.0]),
    ('LOWESS.it', [0, 1]),
    ('SLICING_PRMS.distance_threshold', [1e-6, 0.05, 1.0, 1.5]),
    ('SLICING_PRMS.dt_scale', [1, 100, 150.5]),
    ('SLICING_PRMS.height_scale_kwargs.min_range', [1, 20000, 1499.5]),
    ('GROUPING_PRMS.height_pad_perc', [0, 100, 12.5]),
    ('GROUPING_PRMS.dt_scale', [1, 100000, 17.5]),
    ('GROUPING_PRMS.height_scale_range', [[1, 1], [100, 100], [1, 5000]]),
    ('LAYERING_PRMS.min_okta_to_split', [0, 8, 9]),
    ('LAYERING_PRMS.gmm_kwargs.scores', ['AIC']),
    ('LAYERING_PRMS.gmm_kwargs.mode', ['prob']),
    ('LAYERING_PRMS.gmm_kwargs.min_prob', [0.5]),
    ('LAYERING_PRMS.gmm_kwargs.delta_mul_gain', [0.5, 1.0]),
    ('LAYERING_PRMS.gmm_kwargs.rescale_0_to_x', [None, 1, 99.5, 0.001]),     # (0.001: every AIC/BIC score is negative)
]

# coupled leaves that only make sense together
COUPLED = [
    ('MIN_SEP:one-bin', 'call', {'MIN_SEP_VALS': [100], 'MIN_SEP_LIMS': []}),
    ('MIN_SEP:three-bins', 'call', {'MIN_SEP_VALS': [100, 250, 1000], 'MIN_SEP_LIMS': [3000, 10000]}),
    ('gmm:prob+min_prob', 'call', {'LAYERING_PRMS': {'gmm_kwargs': {'mode': 'prob', 'min_prob': 0.5}}}),
    ('scale:shift-and-scale', 'global', {'SLICING_PRMS': {'height_scale_mode': 'shift-and-scale', 'height_scale_kwargs': {'scale': 1000}}}),
    ('scale:step-scale', 'global', {'SLICING_PRMS': {'height_scale_mode': 'step-scale',
                                                      'height_scale_kwargs': {'steps': [8000, 14000], 'scales': [100, 500, 1000]}}}),
    ('scale:minmax-novalue', 'global', {'SLICING_PRMS': {'height_scale_mode': 'minmax-scale', 'height_scale_kwargs': {'min_range': 500}}}),
]


def deviations():
    out = []
    for path, vals in LEAF_MENU:
        for v in vals:
            out.append((f'{path}={v!r}', 'call', nest(path, v)))
    out += COUPLED
    return out


def configs(d, base=None):
    """All configurations that deviate from `base` (default: packaged defaults) in at most d entries of
    the deviation list (d = 0, 1, 2), two deviations never touching the same leaf."""
    devs = deviations()
    base = base or {}
    yield ('default', 'call', copy.deepcopy(base))
    if d >= 1:
        for name, route, dd in devs:
            yield (name, route, merge(base, dd))
    if d >= 2:
        def group(n):
            # deviations of one leaf, or coupled deviations of one family ('scale:*', 'MIN_SEP:*', 'gmm:*'), are never combined with each other
            return n.split(':')[0] if ':' in n.split('=')[0] else n.split('=')[0]
        for (n1, r1, d1), (n2, r2, d2) in itertools.combinations(devs, 2):
            if group(n1) == group(n2):
                continue
            if {group(n1), group(n2)} == {'scale', 'SLICING_PRMS.height_scale_kwargs.min_range'}:
                continue        # min_range only exists for the min-max mode
            if 'global' in (r1, r2) and r1 != r2:
                # mixed routes: apply the global part globally, the other per call
                yield (f'{n1} & {n2}', 'mixed', {'global': d1 if r1 == 'global' else d2, 'call': merge(base, d2 if r1 == 'global' else d1)})
            else:
                yield (f'{n1} & {n2}', r1, merge(merge(base, d1), d2))


def all_leaves(d, prefix=''):
    out = []
    for k, v in d.items():
        p = f'{prefix}{k}'
        if isinstance(v, dict):
            out += all_leaves(v, p + '.')
        else:
            out.append((p, v))
    return out
