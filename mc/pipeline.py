"""Running the real pipeline and looking at it only through its public surface."""
import copy
import math
import re
import traceback
import warnings
from fractions import Fraction

import numpy as np

from . import scenes, env

LEVELS = ('slices', 'groups', 'layers')


class Run:
    """Outcome of ampycloud.run(frame, prms) + metar_msg at each level."""
    __slots__ = ('chunk', 'exc', 'exc_type', 'site', 'msgs', 'frame', 'prms', 'warnings')

    @property
    def ok(self):
        return self.exc is None


def innermost_ampycloud_frame(tb) -> str:
    site = 'unknown'
    for fs in traceback.extract_tb(tb):
        if '/ampycloud/' in fs.filename:
            site = f"{fs.filename.split('/ampycloud/')[-1]}:{fs.name}"
    return site


REPLACE_WHOLE = {'height_scale_kwargs', 'MIN_SEP_VALS', 'MIN_SEP_LIMS', 'EXCLUDE_FOR_BASE_HEIGHT_CALC', 'height_scale_range'}


def set_global(d, target=None):
    """Write a nested dict into dynamic.AMPYCLOUD_PRMS the way a user edits it by hand (nested dicts
    are descended into; the kwargs dict of a scaling mode is replaced as a whole)."""
    from ampycloud import dynamic
    target = dynamic.AMPYCLOUD_PRMS if target is None else target
    for k, v in d.items():
        if isinstance(v, dict) and k not in REPLACE_WHOLE and isinstance(target.get(k), dict):
            set_global(v, target[k])
        else:
            target[k] = copy.deepcopy(v)


def run(rows_or_frame, prms=None, msgs=True, keep_warnings=False, glob=None) -> Run:
    """glob: nested dict written into the GLOBAL parameters for the duration of this run (restored with
    reset_prms() afterwards)."""
    import ampycloud
    if glob:
        set_global(glob)
        try:
            return run(rows_or_frame, prms, msgs, keep_warnings)
        finally:
            ampycloud.reset_prms()
    r = Run()
    r.frame = scenes.frame(rows_or_frame) if isinstance(rows_or_frame, list) else rows_or_frame
    r.prms = prms
    r.chunk, r.exc, r.exc_type, r.site, r.msgs, r.warnings = None, None, None, None, {}, []
    with warnings.catch_warnings(record=keep_warnings) as wl:
        warnings.simplefilter('always' if keep_warnings else 'ignore')
        try:
            r.chunk = ampycloud.run(r.frame, prms=copy.deepcopy(prms) if prms is not None else None)
            if msgs:
                for w in LEVELS:
                    r.msgs[w] = r.chunk.metar_msg(w)
        except Exception as e:  # reported by the caller according to the property at hand
            r.exc = e
            r.exc_type = type(e).__name__
            r.site = innermost_ampycloud_frame(e.__traceback__)
        if keep_warnings:
            r.warnings = [(w.category.__name__, str(w.message)) for w in wl]
    return r


def crash_violation(r: Run, clause: str, extra=None):
    d = {'raised': f'{r.exc_type}: {str(r.exc)[:300]}', 'prms': r.prms}
    if extra:
        d.update(extra)
    return {'clause': clause, 'site': f'{r.exc_type}@{r.site}', 'detail': d}


# ------------------------------------------------------------------------------------------------
# reference pieces written from the property statements
# ------------------------------------------------------------------------------------------------
GROUP_RE = re.compile(r'^(FEW|SCT|BKN|OVC)(\d{3})$')
MSG_RE = re.compile(r'^(NCD|NSC|((FEW|SCT|BKN|OVC)\d{3})( (FEW|SCT|BKN|OVC)\d{3}){0,2})$')
ABBR = {0: 'NCD', 1: 'FEW', 2: 'FEW', 3: 'SCT', 4: 'SCT', 5: 'BKN', 6: 'BKN', 7: 'BKN', 8: 'OVC'}
RANK = {'FEW': 1, 'SCT': 3, 'BKN': 5, 'OVC': 8}


_DEFAULTS = None


def default_prms():
    """The packaged defaults, read by the HARNESS from the YAML file (never through the code under test)."""
    global _DEFAULTS
    if _DEFAULTS is None:
        from pathlib import Path
        from ruamel.yaml import YAML
        _DEFAULTS = YAML(typ='safe').load(Path(env.REPO_SRC) / 'ampycloud' / 'prms' / 'ampycloud_default_prms.yml')
    return copy.deepcopy(_DEFAULTS)


def effective(prms, key, sub=None):
    """Effective value of a (top-level or nested) parameter given a per-call dict, from the packaged
    defaults (the harness never leaves the global dictionary modified across cases)."""
    base = default_prms()
    v = (prms or {}).get(key, base[key])
    if sub is not None:
        bv = base[key][sub]
        v = (prms or {}).get(key, {}).get(sub, bv)
    return v


def crop_limit(prms):
    msa = effective(prms, 'MSA')
    if msa is None:
        return None
    return msa + effective(prms, 'MSA_HIT_BUFFER')


def hits_above_limit(rows, prms):
    """Count of input hits strictly above MSA+buffer, from the caller's rows."""
    lim = crop_limit(prms)
    if lim is None:
        return 0
    return sum(1 for r in rows if r[2] is not None and r[2] > lim)


def accept_oktas_count(n, total, okta0, okta8):
    """C03 three-way rule, ties accept both neighbours."""
    if n <= okta0:
        return {0}
    if total - n <= okta8:
        return {8}
    x = Fraction(8 * n, total)
    if n == total:
        return {8}
    fl = math.floor(x)
    fr = x - fl
    c = {fl, fl + 1} if fr == Fraction(1, 2) else ({fl} if fr < Fraction(1, 2) else {fl + 1})
    return {min(7, max(1, k)) for k in c}


def table_rows(tab):
    """Public table as list of dicts with python scalars."""
    out = []
    for i in range(len(tab)):
        row = tab.iloc[i]
        out.append({k: (row[k].item() if hasattr(row[k], 'item') else row[k]) for k in tab.columns})
    return out


def check_message_grammar(msg, tab, msa):
    """C01 clauses. Returns (list of (clause, detail), exercised clause names)."""
    bad, ex = [], []
    ex.append('C01.grammar')
    if not isinstance(msg, str) or not MSG_RE.match(msg):
        bad.append(('C01.grammar', {'msg': repr(msg)}))
        return bad, ex
    rows = table_rows(tab)
    bases = [r['height_base'] for r in rows]
    ex.append('C01.table_sorted')
    if any(b2 < b1 for b1, b2 in zip(bases, bases[1:])):
        bad.append(('C01.table_sorted', {'bases': bases}))
    if msg in ('NCD', 'NSC'):
        return bad, ex
    groups = msg.split(' ')
    hs = [int(g[3:]) for g in groups]
    if len(groups) >= 2:
        ex.append('C01.order')
        if any(b < a for a, b in zip(hs, hs[1:])):
            bad.append(('C01.order', {'msg': msg}))
        ex.append('C01.second_sct')
        if RANK[groups[1][:3]] < 3:
            bad.append(('C01.second_sct', {'msg': msg}))
    if len(groups) == 3:
        ex.append('C01.third_bkn')
        if RANK[groups[2][:3]] < 5:
            bad.append(('C01.third_bkn', {'msg': msg}))
    # every group stands for a listed row of >= 1 okta with base below the MSA, in table order
    msa_val = math.inf if msa is None else msa
    ex.append('C01.code_listed')
    pos = 0
    for g in groups:
        found = None
        for j in range(pos, len(rows)):
            if rows[j]['code'] == g:
                found = j
                break
        if found is None:
            bad.append(('C01.code_listed', {'msg': msg, 'group': g, 'codes': [r['code'] for r in rows]}))
            break
        pos = found + 1
    # judged on every row that could stand for the group: violated only if NO admissible row exists
    ex.append('C01.no_zero_okta')
    ex.append('C01.below_msa')
    pos = 0
    for g in groups:
        cands = [j for j in range(pos, len(rows)) if rows[j]['code'] == g]
        if not cands:
            break
        if not any(rows[j]['okta'] >= 1 for j in cands):
            bad.append(('C01.no_zero_okta', {'msg': msg, 'group': g}))
        adm = [j for j in cands if rows[j]['okta'] >= 1 and rows[j]['height_base'] < msa_val]
        if any(rows[j]['okta'] >= 1 for j in cands) and not adm:
            bad.append(('C01.below_msa', {'msg': msg, 'group': g, 'msa': msa,
                                          'bases': [rows[j]['height_base'] for j in cands]}))
        pos = (adm[0] if adm else cands[0]) + 1
    return bad, ex


def check_underreporting(msg, tab, msa, n_above, okta0):
    """C02 reference decision procedure. tab = layers table (may be empty)."""
    bad, ex = [], []
    rows = table_rows(tab)
    msa_val = math.inf if msa is None else msa
    reportable = [r for r in rows if r['okta'] >= 1 and r['height_base'] < msa_val]
    cloud_above = any(r['okta'] >= 1 and r['height_base'] >= msa_val for r in rows)
    flag = n_above > okta0
    codes = [r['code'] for r in rows]
    if not isinstance(msg, str):
        return [('C02.first_is_lowest', {'msg': repr(msg)})], ['C02.first_is_lowest']
    groups = [] if msg in ('NCD', 'NSC') else msg.split(' ')
    if reportable:
        ex.append('C02.first_is_lowest')
        lowest = min(reportable, key=lambda r: r['height_base'])
        # several rows may share the lowest base: accept any of their codes
        low_codes = {r['code'] for r in reportable if r['height_base'] == lowest['height_base']}
        if not groups or groups[0] not in low_codes:
            bad.append(('C02.first_is_lowest', {'msg': msg, 'expected_first': sorted(low_codes)}))
        ceil_rows = [r for r in reportable if r['okta'] >= 5]
        if ceil_rows:
            ex.append('C02.ceiling_present')
            cb = min(r['height_base'] for r in ceil_rows)
            ceil_codes = {r['code'] for r in ceil_rows if r['height_base'] == cb}
            if not any(g in ceil_codes for g in groups):
                bad.append(('C02.ceiling_present', {'msg': msg, 'ceiling': sorted(ceil_codes),
                                                    'table': [(r['code'], r['okta']) for r in rows]}))
        ex.append('C02.groups_listed')
        if any(g not in codes for g in groups):
            bad.append(('C02.groups_listed', {'msg': msg, 'codes': codes}))
    if msg == 'NCD':
        ex.append('C02.ncd_only_if')
        if any(r['okta'] >= 1 for r in rows) or flag:
            bad.append(('C02.ncd_only_if', {'msg': msg, 'oktas': [r['okta'] for r in rows], 'hits_above_limit': n_above,
                                            'MAX_HITS_OKTA0': okta0}))
    expect_nsc = (not reportable) and (cloud_above or flag)
    ex.append('C02.nsc_iff')
    if expect_nsc:
        ex.append('C02.nsc_expected')
    if (msg == 'NSC') != expect_nsc:
        bad.append(('C02.nsc_iff', {'msg': msg, 'expected_nsc': expect_nsc, 'cloud_at_or_above_msa': cloud_above,
                                    'hits_above_limit': n_above, 'MAX_HITS_OKTA0': okta0,
                                    'table': [(r['code'], r['okta'], r['height_base']) for r in rows], 'msa': msa}))
    if not reportable and not expect_nsc:
        ex.append('C02.ncd_expected')
    return bad, ex
